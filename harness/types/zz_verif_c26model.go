//go:build verif

package types

// Engine-side model used ONLY by the C26 checks (the real Payload.MarshalMsg is executed in C20):
// the serialised size of a payload is what matters to the transmission's batch splitting, and a
// megabyte-sized body of symbolic fields cannot be built. The payload serialises to
// MetaSpanCount zero bytes.
//
//verif:model (github.com/honeycombio/refinery/types.Payload).MarshalMsg only=C26
func verifPayloadMarshalSized(p Payload, buf []byte) ([]byte, error) {
	return append(buf, make([]byte, int(p.MetaSpanCount))...), nil
}
