//go:build verif

package types

import (
	"github.com/tinylib/msgp/msgp"

	"github.com/honeycombio/refinery/config"
	zz "github.com/honeycombio/refinery/internal/zzverif"
)

var verifIDKeys = []string{"meta.trace_id", "trace.trace_id", "traceId", "trace.parent_id", "parentId", "meta.signal_type", "other"}

type verifEntry struct {
	key   int
	isStr bool
	str   string
}

// entries: 1..3 distinct keys from verifIDKeys in any order, values strings of length 0..1
// (signal type: "log" or "trace") or a non-string.
func verifIDEntries() []verifEntry {
	n := 1 + zz.Choose("entries", 3)
	var es []verifEntry
	for i := 0; i < n; i++ {
		k := zz.Choose("key", len(verifIDKeys))
		for _, e := range es {
			zz.Assume(e.key != k)
		}
		e := verifEntry{key: k}
		if k == 5 {
			e.isStr, e.str = true, []string{"log", "trace"}[zz.Choose("signal", 2)]
		} else if zz.NondetBool("isString") {
			e.isStr, e.str = true, zz.NondetString("value", 1)
		}
		es = append(es, e)
	}
	return es
}

// the statement's reading of the entries
func verifIDSpec(es []verifEntry) (belongs bool, tid string, root bool, ambiguous bool) {
	get := func(k int) (string, bool) {
		for _, e := range es {
			if e.key == k && e.isStr {
				return e.str, true
			}
		}
		return "", false
	}
	meta, _ := get(0)
	t1, _ := get(1)
	t2, _ := get(2)
	p1, _ := get(3)
	p2, _ := get(4)
	sig, _ := get(5)
	switch {
	case meta != "":
		tid = meta
	case t1 != "":
		tid = t1
		// two configured trace-ID fields that disagree: the statement says the first in configured order wins
		ambiguous = zz.And(t2 != "", t2 != t1)
	default:
		tid = t2
	}
	belongs = tid != ""
	root = zz.And(belongs, zz.And(zz.And(p1 == "", p2 == ""), sig != "log"))
	return
}

func verifIDCheck(p *Payload, es []verifEntry, what string) {
	belongs, tid, root, ambiguous := verifIDSpec(es)
	zz.Assert((p.MetaTraceID != "") == belongs, what+": belongs to a trace iff meta.trace_id or a configured trace-ID field holds a non-empty string")
	if ambiguous {
		zz.Assert(p.MetaTraceID == tid, what+": with two trace-ID fields the first in configured order wins")
	} else {
		zz.Assert(p.MetaTraceID == tid, what+": trace ID = meta.trace_id if present, else the first configured trace-ID field")
	}
	if belongs {
		zz.Assert(p.MetaRefineryRoot.Value == root, what+": root iff in a trace, no non-empty parent-ID field, and not a log record")
	}
}

func verifIDConfig() *config.MockConfig {
	return &config.MockConfig{TraceIdFieldNames: []string{"trace.trace_id", "traceId"}, ParentIdFieldNames: []string{"trace.parent_id", "parentId"}}
}

// C21 (msgpack bytes): every map of <= 3 of the identity fields in every wire order.
func Harness_C21_bytes() {
	zz.MustCover("(*github.com/honeycombio/refinery/types.Payload).extractCriticalFieldsFromBytes")
	zz.Bound("entries", 3)
	zz.Bound("value_len", 1)
	es := verifIDEntries()
	buf := msgp.AppendMapHeader(nil, uint32(len(es)))
	for _, e := range es {
		buf = msgp.AppendString(buf, verifIDKeys[e.key])
		if e.isStr {
			buf = msgp.AppendString(buf, e.str)
		} else {
			buf = msgp.AppendInt64(buf, 7)
		}
	}
	// through the plain decoder, or through the ingestion decoder that also memoises the sampler's
	// key fields - which may name the very fields that carry the IDs (a rule on trace.parent_id,
	// a FieldList with traceId)
	cfg := verifIDConfig()
	p := &Payload{config: cfg}
	var rest []byte
	var err error
	switch zz.Choose("decoder", 3) {
	case 0:
		rest, err = p.UnmarshalMsg(buf)
	case 1:
		cfg.Samplers = map[string]*config.V2SamplerChoice{"env": {DynamicSampler: &config.DynamicSamplerConfig{SampleRate: 1, FieldList: []string{"trace.parent_id"}}}}
		cu := NewCoreFieldsUnmarshaler(CoreFieldsUnmarshalerOptions{Config: cfg, APIKey: "k", Env: "env", Dataset: "d"})
		rest, err = cu.UnmarshalMsgpFirstEvent(buf, p)
	default:
		cfg.Samplers = map[string]*config.V2SamplerChoice{"env": {DynamicSampler: &config.DynamicSamplerConfig{SampleRate: 1, FieldList: []string{"traceId", "parentId", "other"}}}}
		cu := NewCoreFieldsUnmarshaler(CoreFieldsUnmarshalerOptions{Config: cfg, APIKey: "k", Env: "env", Dataset: "d"})
		rest, err = cu.UnmarshalMsgpFirstEvent(buf, p)
	}
	zz.Assert(err == nil, "well-formed payload is accepted")
	zz.Assert(len(rest) == 0, "the whole map is consumed")
	verifIDCheck(p, es, "msgpack")
}

// C21 (decoded map, e.g. JSON events): same fields in a Go map, any iteration order.
func Harness_C21_map() {
	zz.MustCover("(*github.com/honeycombio/refinery/types.Payload).ExtractMetadata")
	zz.Bound("entries", 3)
	es := verifIDEntries()
	m := map[string]any{}
	for _, e := range es {
		if e.isStr {
			m[verifIDKeys[e.key]] = e.str
		} else {
			m[verifIDKeys[e.key]] = int64(7)
		}
	}
	zz.AnyOrder(m)
	p := NewPayload(verifIDConfig(), m)
	zz.Assert(p.ExtractMetadata() == nil, "well-formed payload is accepted")
	verifIDCheck(&p, es, "map")
}
