//go:build verif

package types

import (
	"github.com/honeycombio/refinery/config"
	zz "github.com/honeycombio/refinery/internal/zzverif"
)

// C28 (msgpack bodies): any byte string of up to 3 bytes (thorough 5) as a msgpack event body goes
// through the ingestion decoder and, when accepted, through the field accessors and the
// re-serialiser without a panic; what is rejected is rejected with an error.
func Harness_C28_msgpack_bytes() {
	zz.MustCover("(*github.com/honeycombio/refinery/types.Payload).extractCriticalFieldsFromBytes")
	maxN := 3
	if zz.Thorough() {
		maxN = 5
	}
	zz.Bound("body_len", maxN)
	n := zz.Choose("len", maxN+1)
	in := zz.NondetBytes("body", n)
	cfg := &config.MockConfig{TraceIdFieldNames: []string{"t"}, ParentIdFieldNames: []string{"p"},
		Samplers: map[string]*config.V2SamplerChoice{"env": {DynamicSampler: &config.DynamicSamplerConfig{SampleRate: 1, FieldList: []string{"s"}}}}}
	cu := NewCoreFieldsUnmarshaler(CoreFieldsUnmarshalerOptions{Config: cfg, APIKey: "k", Env: "env", Dataset: "d"})
	p := &Payload{config: cfg}
	rest, err := cu.UnmarshalMsgpFirstEvent(in, p)
	zz.Observe("accepted", err == nil)
	if err != nil {
		return
	}
	zz.Assert(len(rest) <= n, "the decoder consumes a prefix of the body")
	_ = p.Exists("a")
	_ = p.Get("a")
	_ = p.Get("s")
	for range p.All() {
	}
	_, _ = p.MarshalMsg(nil)
}
