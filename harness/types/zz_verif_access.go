//go:build verif

package types

// Two-line accessors so that harnesses in other packages can make sizes and impacts
// free symbolic integers.
func (e *Event) VerifSetDataSize(n int) { e.dataSize = n }
func (t *Trace) VerifSetImpact(n int)   { t.totalImpact = n }
func (t *Trace) VerifImpact() int       { return t.totalImpact }
