//go:build verif

package types

import (
	"math"
	"time"

	"github.com/tinylib/msgp/msgp"

	"github.com/honeycombio/refinery/config"
	zz "github.com/honeycombio/refinery/internal/zzverif"
)

var verifFieldKeys = []string{"a", "skey", "trace.trace_id", "", "error"}

// one msgpack-encoded value of any wire type (scalars symbolic)
func verifWireValue(tag string, all bool) []byte {
	ty := 0
	if all {
		ty = zz.Choose(tag+".type", 11)
	} else {
		ty = []int{2, 6, 10}[zz.Choose(tag+".type3", 3)]
	}
	switch ty {
	case 0:
		return msgp.AppendNil(nil)
	case 1:
		return msgp.AppendBool(nil, zz.NondetBool(tag+".bool"))
	case 2:
		// fixints (one byte that is both type tag and value) as concrete samples, wider ints symbolic:
		// a symbolic tag byte would turn every later size-table lookup into a 256-way case split
		if zz.NondetBool(tag + ".fixint") {
			return msgp.AppendInt64(nil, []int64{0, 5, 127, -1, -32}[zz.Choose(tag+".fixval", 5)])
		}
		v := zz.NondetInt64(tag + ".int")
		zz.Assume(zz.Or(v > 127, v < -32))
		return msgp.AppendInt64(nil, v)
	case 3:
		u := zz.NondetUint64(tag + ".uint")
		zz.Assume(u > 127)
		return msgp.AppendUint64(nil, u)
	case 4:
		return msgp.AppendFloat32(nil, math.Float32frombits(zz.NondetUint32(tag+".f32bits")))
	case 5:
		return msgp.AppendFloat64(nil, math.Float64frombits(zz.NondetUint64(tag+".f64bits")))
	case 6:
		return msgp.AppendString(nil, zz.NondetString(tag+".str", 1))
	case 7:
		return msgp.AppendBytes(nil, []byte{zz.NondetByte(tag + ".bin")})
	case 8:
		b := msgp.AppendArrayHeader(nil, 1)
		e := zz.NondetInt64(tag + ".elem")
		zz.Assume(zz.Or(e > 127, e < -32))
		return msgp.AppendInt64(b, e)
	case 9:
		b := msgp.AppendMapHeader(nil, 1)
		b = msgp.AppendString(b, "k")
		return msgp.AppendBool(b, zz.NondetBool(tag+".mapval"))
	}
	return msgp.AppendTime(nil, time.Unix(1700000000, 123456789))
}

// C20: a msgpack event map of 1..2 (thorough 3) entries with distinct keys (ordinary, empty, a
// sampling-key field, a trace-ID field) and values of every wire type goes through ingestion
// (UnmarshalMsgpFirstEvent with the sampler's key fields), optional memoisation and a meta
// decoration, and MarshalMsg: every client field appears in the forwarded map exactly once with
// exactly its value; only meta.* fields are added; the header count is right.
func Harness_C20_roundtrip() {
	zz.MustCover("(*github.com/honeycombio/refinery/types.Payload).extractCriticalFieldsFromBytes",
		"(github.com/honeycombio/refinery/types.Payload).MarshalMsg",
		"(*github.com/honeycombio/refinery/types.Payload).MemoizeFields")
	maxN := 2
	if zz.Thorough() {
		maxN = 3
	}
	zz.Bound("entries", maxN)
	n := 1 + zz.Choose("entries", maxN)
	var keys []int
	var raws [][]byte
	in := msgp.AppendMapHeader(nil, uint32(n))
	for i := 0; i < n; i++ {
		k := zz.Choose("key", len(verifFieldKeys))
		for _, p := range keys {
			zz.Assume(p != k)
		}
		raw := verifWireValue("value", true)
		keys, raws = append(keys, k), append(raws, raw)
		// map keys may be encoded as str or (first entry) as bin: both are legal msgpack keys
		if i == 0 && n <= 2 && zz.NondetBool("binKey") { // (3-entry maps, thorough only, stay within the path budget)
			in = msgp.AppendBytes(in, []byte(verifFieldKeys[k]))
		} else {
			in = msgp.AppendString(in, verifFieldKeys[k])
		}
		in = append(in, raw...)
	}
	cfg := &config.MockConfig{TraceIdFieldNames: []string{"trace.trace_id"}, ParentIdFieldNames: []string{"trace.parent_id"},
		Samplers: map[string]*config.V2SamplerChoice{"env": {DynamicSampler: &config.DynamicSamplerConfig{SampleRate: 1, FieldList: []string{"skey"}}}}}
	cu := NewCoreFieldsUnmarshaler(CoreFieldsUnmarshalerOptions{Config: cfg, APIKey: "k", Env: "env", Dataset: "d"})
	p := &Payload{config: cfg}
	rest, err := cu.UnmarshalMsgpFirstEvent(in, p)
	zz.Assert(err == nil, "well-formed event accepted")
	zz.Assert(len(rest) == 0, "whole map consumed")
	if zz.NondetBool("memoize") {
		p.MemoizeFields("a", "skey", "missing")
	}
	p.Set(MetaRefineryReason, "rule")
	p.Set(MetaStressed, true)
	out, err := p.MarshalMsg(nil)
	zz.Assert(err == nil, "forwarded event serialises")
	cnt, b, err := msgp.ReadMapHeaderBytes(out)
	zz.Assert(err == nil, "output is a map")
	var seen [8]int
	added := 0
	for i := uint32(0); i < cnt; i++ {
		var kb []byte
		kb, b, err = msgp.ReadMapKeyZC(b)
		zz.Assert(err == nil, "output key readable")
		after, err2 := msgp.Skip(b)
		zz.Assert(err2 == nil, "output value well-formed")
		raw := b[:len(b)-len(after)]
		b = after
		matched := false
		for j, k := range keys {
			if string(kb) == verifFieldKeys[k] {
				matched = true
				seen[j]++
				if verifFieldKeys[k] == "skey" || verifFieldKeys[k] == "a" {
					// possibly memoised: re-encoded from the decoded value; compare decoded values
					want, _, e1 := msgp.ReadIntfBytes(raws[j])
					got, _, e2 := msgp.ReadIntfBytes(raw)
					if e1 == nil && e2 == nil {
						zz.Assert(verifSameValue(want, got), "memoised field keeps its value and type")
					}
				} else {
					zz.Assert(string(raw) == string(raws[j]), "client field forwarded with exactly its encoded value")
				}
			}
		}
		if !matched {
			added++
			zz.Assert(len(kb) >= 5 && string(kb[:5]) == "meta.", "only meta.* fields are added")
		}
	}
	zz.Assert(len(b) == 0, "header count matches the entries written")
	for j := range keys {
		zz.Assert(seen[j] == 1, "every client field appears exactly once (none lost, none duplicated)")
	}
}

func verifSameValue(a, b any) bool {
	switch x := a.(type) {
	case []any:
		y, ok := b.([]any)
		return ok && len(x) == len(y) && (len(x) == 0 || x[0] == y[0])
	case map[string]any:
		y, ok := b.(map[string]any)
		return ok && len(x) == len(y) && x["k"] == y["k"]
	case []byte:
		y, ok := b.([]byte)
		return ok && string(x) == string(y)
	case float64:
		y, ok := b.(float64)
		return ok && math.Float64bits(x) == math.Float64bits(y)
	case float32:
		y, ok := b.(float32)
		return ok && math.Float32bits(x) == math.Float32bits(y)
	case time.Time:
		y, ok := b.(time.Time)
		return ok && x.Equal(y)
	}
	return a == b
}
