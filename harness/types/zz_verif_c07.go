//go:build verif

package types

import (
	"time"

	zz "github.com/honeycombio/refinery/internal/zzverif"
)

// C07 (impact estimate): the estimate that orders memory-pressure ejection is the span's data size
// times an age multiplier that grows from 1 to cacheImpactFactor as the span's time in the buffer
// approaches TraceTimeout: multiplier = 1 + floor(cacheImpactFactor * age / TraceTimeout), for every
// age in [0, 3 x TraceTimeout], every size below 2^20 and three timeouts. (Stated without division:
// (m-1) * T <= factor * age < m * T.)
func Harness_C07_impact() {
	zz.MustCover("(*github.com/honeycombio/refinery/types.Span).CacheImpact")
	timeouts := []time.Duration{time.Second, 60 * time.Second, 1500 * time.Millisecond}
	T := timeouts[zz.Choose("traceTimeout", len(timeouts))]
	zz.Bound("age_max_timeouts", 3)
	age := zz.NondetInt64("age")
	zz.Assume(age >= 0)
	zz.Assume(age <= 3*int64(T))
	size := zz.NondetInt("size")
	zz.Assume(size >= 1)
	zz.Assume(size < 1<<20)
	t0 := int64(1 << 40)
	sp := &Span{Event: &Event{}, ArrivalTime: zz.MonoTime(t0)}
	sp.Event.dataSize = size
	zz.SetNow(t0 + age)
	slack := int64(0)
	if !zz.InEngine() {
		// natively time.Since reads the real clock: the span arrived `age` ago, give or take the
		// time the call itself takes
		sp.ArrivalTime = time.Now().Add(-time.Duration(age))
		slack = int64(time.Second) // generous: a loaded machine may deschedule the replay between two statements
	}
	impact := sp.CacheImpact(T)
	zz.Assert(impact%size == 0, "the impact is a whole multiple of the data size")
	m := int64(impact / size)
	zz.Assert(zz.And(m >= 1, m <= 3*cacheImpactFactor+1), "the age multiplier is at least 1 and bounded")
	zz.Assert(zz.And((m-1)*int64(T) <= cacheImpactFactor*(age+slack), cacheImpactFactor*age < m*int64(T)),
		"the age multiplier is 1 + floor(cacheImpactFactor * age / TraceTimeout)")
}
