//go:build verif

package types

import (
	"time"

	zz "github.com/honeycombio/refinery/internal/zzverif"
)

// C07 (impact estimate): the estimate that orders memory-pressure ejection is the span's data size
// times an age multiplier that grows from 1 to cacheImpactFactor as the span's time in the buffer
// approaches TraceTimeout: multiplier = 1 + floor(cacheImpactFactor * age / TraceTimeout), for every
// age in [0, 3 x TraceTimeout], every size below 2^20 and three timeouts. (Stated without division:
// (m-1) * T <= factor * age < m * T.)
func Harness_C07_impact() {
	zz.MustCover("(*github.com/honeycombio/refinery/types.Span).CacheImpact")
	timeouts := []time.Duration{time.Second, 60 * time.Second, 1500 * time.Millisecond}
	T := timeouts[zz.Choose("traceTimeout", len(timeouts))]
	zz.Bound("age_max_timeouts", 3)
	age := zz.NondetInt64("age")
	zz.Assume(age >= 0)
	zz.Assume(age <= 3*int64(T))
	size := zz.NondetInt("size")
	zz.Assume(size >= 1)
	zz.Assume(size < 1<<20)
	t0 := int64(1 << 40)
	sp := &Span{Event: &Event{}, ArrivalTime: zz.MonoTime(t0)}
	sp.Event.dataSize = size
	zz.SetNow(t0 + age)
	slack := int64(0)
	if !zz.InEngine() {
		// natively time.Since reads the real clock: the span arrived `age` ago, give or take the
		// time the call itself takes
		sp.ArrivalTime = time.Now().Add(-time.Duration(age))
		slack = int64(time.Second) // generous: a loaded machine may deschedule the replay between two statements
	}
	impact := sp.CacheImpact(T)
	zz.Assert(impact%size == 0, "the impact is a whole multiple of the data size")
	m := int64(impact / size)
	zz.Assert(zz.And(m >= 1, m <= 3*cacheImpactFactor+1), "the age multiplier is at least 1 and bounded")
	zz.Assert(zz.And((m-1)*int64(T) <= cacheImpactFactor*(age+slack), cacheImpactFactor*age < m*int64(T)),
		"the age multiplier is 1 + floor(cacheImpactFactor * age / TraceTimeout)")
}

// C07 (the trace's estimate is current when it is used): Trace.CacheImpact memoises the sum of its
// spans' estimates and AddSpan must invalidate the memo. A span of any size arrives, the estimate
// is taken after any time a1 (an ejection round the trace survives), any time a2 later a second
// span arrives, and the estimate is taken again at once: it equals the sum of the two spans'
// own current estimates (size x age multiplier), not a total whose older part still has the
// multiplier of the first round.
func Harness_C07_memo() {
	zz.MustCover("(*github.com/honeycombio/refinery/types.Trace).CacheImpact", "(*github.com/honeycombio/refinery/types.Trace).AddSpan")
	zz.Bound("spans", 2)
	zz.Bound("age_max_timeouts", 2)
	T := 60 * time.Second
	a1, a2 := zz.NondetInt64("a1"), zz.NondetInt64("a2")
	zz.Assume(a1 >= 0)
	zz.Assume(a1 <= 2*int64(T))
	zz.Assume(a2 >= 0)
	zz.Assume(a2 <= 2*int64(T))
	s1, s2 := zz.NondetInt("size1"), zz.NondetInt("size2")
	zz.Assume(s1 >= 1)
	zz.Assume(s1 < 1<<20)
	zz.Assume(s2 >= 1)
	zz.Assume(s2 < 1<<20)
	t0 := int64(1 << 40)
	tr := &Trace{TraceID: "A"}
	sp1, sp2 := &Span{Event: &Event{}}, &Span{Event: &Event{}}
	sp1.Event.dataSize, sp2.Event.dataSize = s1, s2
	zz.SetNow(t0)
	tr.AddSpan(sp1)
	zz.SetNow(t0 + a1)
	if !zz.InEngine() { // natively time.Now is the real clock: the span arrived a1 ago
		sp1.ArrivalTime = time.Now().Add(-time.Duration(a1))
	}
	first := tr.CacheImpact(T)
	zz.Assert(first >= s1, "the estimate is at least the data size")
	zz.SetNow(t0 + a1 + a2)
	if !zz.InEngine() {
		sp1.ArrivalTime = time.Now().Add(-time.Duration(a1 + a2))
	}
	tr.AddSpan(sp2)
	before := sp1.CacheImpact(T) + sp2.CacheImpact(T)
	second := tr.CacheImpact(T)
	after := sp1.CacheImpact(T) + sp2.CacheImpact(T)
	// in the engine the clock stands still and before == after; natively the real clock may step
	// a multiplier between the three readings
	zz.Assert(zz.And(before <= second, second <= after), "after a span is added the trace's estimate is the sum of its spans' current estimates")
}
