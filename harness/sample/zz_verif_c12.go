//go:build verif

package sample

import (
	"github.com/honeycombio/refinery/config"
	zz "github.com/honeycombio/refinery/internal/zzverif"
	"github.com/honeycombio/refinery/logger"
	"github.com/honeycombio/refinery/metrics"
)

type verifPeers struct {
	n   int
	err bool
	cb  func()
}

func (p *verifPeers) GetPeers() ([]string, error) {
	if p.err {
		return nil, errVerif
	}
	return make([]string, p.n), nil
}
func (p *verifPeers) GetInstanceID() (string, error)           { return "me", nil }
func (p *verifPeers) RegisterUpdatedPeersCallback(cb func()) { p.cb = cb }
func (p *verifPeers) Ready() error                             { return nil }
func (p *verifPeers) Start() error                             { return nil }

type verifErr struct{}

func (verifErr) Error() string { return "verif" }

var errVerif error = verifErr{}

func verifFactory(p *verifPeers) *SamplerFactory {
	f := &SamplerFactory{Config: &config.MockConfig{}, Logger: &logger.NullLogger{}, Metrics: &metrics.NullMetrics{}}
	if p != nil {
		f.Peers = p
	}
	f.Start()
	return f
}

func verifDynCfg(tag string) *config.DynamicSamplerConfig {
	rate := zz.NondetInt64(tag + ".SampleRate")
	zz.Assume(rate >= 1)
	zz.Assume(rate < 1000)
	cf := zz.NondetInt64(tag + ".ClearFrequency")
	zz.Assume(cf >= 0)
	zz.Assume(cf < 1<<40)
	mk := zz.NondetInt(tag + ".MaxKeys")
	zz.Assume(mk >= 0)
	zz.Assume(mk < 1000)
	return &config.DynamicSamplerConfig{SampleRate: rate, ClearFrequency: config.Duration(cf), FieldList: []string{zz.NondetStringN(tag+".field", 1)}, MaxKeys: mk, UseTraceLength: zz.NondetBool(tag + ".UseTraceLength")}
}

// C12: two Dynamic sampler definitions (every field symbolic) created under two prefixes
// (environment/dataset names): they get the same rate-tracking state iff prefix and the entire
// configuration are identical; a second worker asking for the same definition gets the same state;
// the registry is empty after a reload clears it.
func Harness_C12_isolation() {
	zz.MustCover("(*github.com/honeycombio/refinery/sample.SamplerFactory).createSampler",
		"github.com/honeycombio/refinery/sample.makeDynsamplerKey",
		"(*github.com/honeycombio/refinery/sample.SamplerFactory).ClearDynsamplers")
	f := verifFactory(nil)
	c1, c2 := verifDynCfg("c1"), verifDynCfg("c2")
	p1 := zz.NondetStringN("prefix1", 1)
	p2 := zz.NondetStringN("prefix2", 1)
	zz.Assume(p1[0] != ':')
	zz.Assume(p2[0] != ':')
	s1 := f.createSampler(c1, p1).(*DynamicSampler)
	s1again := f.createSampler(c1, p1).(*DynamicSampler) // another worker, same definition
	s2 := f.createSampler(c2, p2).(*DynamicSampler)
	zz.Assert(s1.dynsampler == s1again.dynsampler, "workers asking for the same definition share one rate-tracking state")
	same := s1.dynsampler == s2.dynsampler
	sameCfgCore := zz.And(c1.SampleRate == c2.SampleRate, c1.FieldList[0] == c2.FieldList[0])
	sameCfgTuning := zz.And(c1.ClearFrequency == c2.ClearFrequency, zz.And(c1.MaxKeys == c2.MaxKeys, c1.UseTraceLength == c2.UseTraceLength))
	if p1 != p2 {
		zz.Assert(!same, "state is never shared between different environments or datasets")
	} else if !sameCfgCore {
		zz.Assert(!same, "definitions that differ in rate or field list do not share state")
	} else if !sameCfgTuning {
		zz.AssertKnown("C12-key-ignores-tuning-parameters", !same, "definitions that differ only in ClearFrequency/MaxKeys/UseTraceLength do not share state")
	} else {
		zz.Assert(same, "identical definitions under one prefix share state")
	}
	// a definition of another sampler type with the same rate and fields, same prefix; two workers each
	e1 := f.createSampler(&config.EMADynamicSamplerConfig{GoalSampleRate: int(c1.SampleRate), FieldList: c1.FieldList}, p1).(*EMADynamicSampler)
	w2d := f.createSampler(c1, p1).(*DynamicSampler)
	w2e := f.createSampler(&config.EMADynamicSamplerConfig{GoalSampleRate: int(c1.SampleRate), FieldList: c1.FieldList}, p1).(*EMADynamicSampler)
	zz.Assert(any(e1.dynsampler) != any(s1.dynsampler), "definitions of different sampler types never share state")
	zz.Assert(w2d.dynsampler == s1.dynsampler, "a second worker gets the same state for the Dynamic definition")
	zz.Assert(w2e.dynsampler == e1.dynsampler, "a second worker gets the same state for the EMADynamic definition")
	f.ClearDynsamplers()
	zz.Assert(len(f.sharedDynsamplers) == 0, "reload clears the registry")
	zz.Assert(len(f.goalThroughputConfigs) == 0, "reload clears the goal bookkeeping")
	s3 := f.createSampler(c1, p1).(*DynamicSampler)
	zz.Assert(s3.dynsampler != s1.dynsampler, "after a reload a fresh state is created")
}

// C13 (inductive step): from a state in which every registered throughput sampler has goal
// max(1, cfg/peerCount) (UseClusterSize) or cfg (otherwise), one step - a membership change to any
// peer count 0..4 (or a failing lookup), or the lazy creation of another throughput sampler, or a
// reload - preserves that relation.
func Harness_C13_cluster_goal() {
	zz.MustCover("(*github.com/honeycombio/refinery/sample.SamplerFactory).updatePeerCounts",
		"(*github.com/honeycombio/refinery/sample.SamplerFactory).createSampler")
	peers := &verifPeers{}
	f := verifFactory(peers)
	peers.n = 1 + zz.Choose("initialPeers", 4)
	goal := func(tag string) int {
		g := zz.NondetInt(tag)
		zz.Assume(g >= 1)
		zz.Assume(g < 1<<20)
		return g
	}
	g1, g2 := goal("goal1"), goal("goal2")
	u1, u2 := zz.NondetBool("useClusterSize1"), zz.NondetBool("useClusterSize2")
	c1 := &config.TotalThroughputSamplerConfig{GoalThroughputPerSec: g1, UseClusterSize: u1, FieldList: []string{"a"}}
	c2 := &config.TotalThroughputSamplerConfig{GoalThroughputPerSec: g2, UseClusterSize: u2, FieldList: []string{"b"}}
	s1 := f.createSampler(c1, "env1").(*TotalThroughputSampler)
	want := func(g int, u bool, n int) int {
		if !u {
			return g
		}
		w := g / n
		if w < 1 {
			w = 1
		}
		return w
	}
	zz.Assert(s1.dynsampler.GoalThroughputPerSec == want(g1, u1, peers.n), "goal at creation = max(1, cfg/peers) with UseClusterSize, else cfg")
	// one step of every kind
	n := peers.n
	switch zz.Choose("step", 3) {
	case 0: // membership change
		k := zz.Choose("newPeers", 5)
		peers.n = k
		peers.err = zz.NondetBool("lookupFails")
		peers.cb()
		if zz.And(!peers.err, k > 0) {
			n = k
		}
	case 1: // lazy creation of a second sampler (any worker)
		s2 := f.createSampler(c2, "env2").(*TotalThroughputSampler)
		zz.Assert(s2.dynsampler.GoalThroughputPerSec == want(g2, u2, n), "second sampler's goal scaled by the current cluster size")
	case 2: // reload, then the sampler is created again
		f.ClearDynsamplers()
		s1 = f.createSampler(c1, "env1").(*TotalThroughputSampler)
	}
	zz.Assert(s1.dynsampler.GoalThroughputPerSec == want(g1, u1, n), "goal in force = max(1, floor(cfg / current peers)) with UseClusterSize, else cfg")
}

// C12 (concurrent creation): two workers create their sampler for the same definition at the same
// time, the engine being free to switch between them at every mutex release (bounded preemption):
// whatever the interleaving they end up sharing one rate-tracking state, and the registry holds
// exactly that one. Natively the racing section is repeated so that a losing interleaving shows.
func Harness_C12_concurrent() {
	zz.MustCover("(*github.com/honeycombio/refinery/sample.SamplerFactory).createSampler")
	zz.Bound("workers", 2)
	zz.Bound("preemptions", 3)
	kind := zz.Choose("samplerType", 2)
	rounds := 1
	if !zz.InEngine() {
		rounds = 300
	}
	shared := true
	for r := 0; r < rounds; r++ {
		f := verifFactory(nil)
		var c any = &config.DynamicSamplerConfig{SampleRate: 2, FieldList: []string{"f"}}
		if kind == 1 {
			c = &config.TotalThroughputSamplerConfig{GoalThroughputPerSec: 10, FieldList: []string{"f"}}
		}
		zz.PreemptAtSync(3)
		var got [2]any
		done := make(chan struct{}, 2)
		for i := 0; i < 2; i++ {
			i := i
			go func() {
				switch s := f.createSampler(c, "env").(type) {
				case *DynamicSampler:
					got[i] = s.dynsampler
				case *TotalThroughputSampler:
					got[i] = s.dynsampler
				}
				done <- struct{}{}
			}()
		}
		<-done
		<-done
		zz.PreemptAtSync(0)
		shared = shared && got[0] != nil && got[0] == got[1] && len(f.sharedDynsamplers) == 1
		f.ClearDynsamplers()
	}
	zz.Assert(shared, "two workers creating the same definition at the same time share one rate-tracking state")
}
