//go:build verif

package sample

import (
	"runtime"
	"time"

	"github.com/honeycombio/refinery/config"
	zz "github.com/honeycombio/refinery/internal/zzverif"
	"github.com/honeycombio/refinery/types"
)

func verifAnyDuration(tag string) config.Duration {
	return config.Duration(zz.NondetInt64(tag))
}

// C28 (sampler creation): every dynamic sampler type created through the factory from any
// configuration the rules validator admits (it sets minima only for GoalThroughputPerSec and the
// [0,1] weights; rates, key limits and durations may be any integer, negative ones included),
// its background goroutine given the chance to start, then one sampling decision: no panic.
func Harness_C28_sampler_start() {
	zz.MustCover("(*github.com/honeycombio/refinery/sample.SamplerFactory).createSampler")
	zz.Bound("spans", 1)
	f := verifFactory(nil)
	fields := []string{"f"}
	var c any
	switch zz.Choose("samplerType", 5) {
	case 0:
		c = &config.DynamicSamplerConfig{SampleRate: zz.NondetInt64("SampleRate"), ClearFrequency: verifAnyDuration("ClearFrequency"),
			FieldList: fields, MaxKeys: zz.NondetInt("MaxKeys"), UseTraceLength: zz.NondetBool("UseTraceLength")}
	case 1:
		c = &config.TotalThroughputSamplerConfig{GoalThroughputPerSec: verifGoal(), ClearFrequency: verifAnyDuration("ClearFrequency"),
			FieldList: fields, MaxKeys: zz.NondetInt("MaxKeys"), UseTraceLength: zz.NondetBool("UseTraceLength")}
	case 2:
		c = &config.WindowedThroughputSamplerConfig{GoalThroughputPerSec: verifGoal(), UpdateFrequency: verifAnyDuration("UpdateFrequency"),
			LookbackFrequency: verifAnyDuration("LookbackFrequency"), FieldList: fields, MaxKeys: zz.NondetInt("MaxKeys")}
	case 3:
		c = &config.EMADynamicSamplerConfig{GoalSampleRate: zz.NondetInt("GoalSampleRate"), AdjustmentInterval: verifAnyDuration("AdjustmentInterval"),
			FieldList: fields, MaxKeys: zz.NondetInt("MaxKeys"), BurstDetectionDelay: uint(zz.NondetInt("BurstDetectionDelay"))}
	default:
		c = &config.EMAThroughputSamplerConfig{GoalThroughputPerSec: verifGoal(), InitialSampleRate: zz.NondetInt("InitialSampleRate"),
			AdjustmentInterval: verifAnyDuration("AdjustmentInterval"), FieldList: fields, MaxKeys: zz.NondetInt("MaxKeys"),
			BurstDetectionDelay: uint(zz.NondetInt("BurstDetectionDelay"))}
	}
	s := f.createSampler(c, "env")
	// let the dynsampler's background goroutine start
	runtime.Gosched()
	if !zz.InEngine() {
		time.Sleep(20 * time.Millisecond)
	}
	zz.Assert(s != nil, "the factory returns a sampler for every validated definition")
	if s == nil {
		return
	}
	sp := &types.Span{Event: &types.Event{Data: types.NewPayload(&config.MockConfig{}, map[string]any{"f": int64(1)})}, TraceID: "T", IsRoot: true}
	rate, _, _, _ := s.GetSampleRate(verifOneSpanTrace(sp))
	zz.Observe("rate", rate)
	zz.Assert(rate >= 1, "the reported rate is at least 1")
}

func verifGoal() int {
	g := zz.NondetInt("GoalThroughputPerSec")
	zz.Assume(g >= 1)
	return g
}
