//go:build verif

package sample

import (
	"fmt"
	"strconv"
	"strings"

	"github.com/honeycombio/refinery/config"
	zz "github.com/honeycombio/refinery/internal/zzverif"
	"github.com/honeycombio/refinery/types"
)

var verifOps = []string{config.EQ, config.NEQ, config.GT, config.GTE, config.LT, config.LTE,
	config.StartsWith, config.Contains, config.DoesNotContain, config.In, config.NotIn,
	config.Exists, config.NotExists, config.MatchesRegexp}

var verifDatatypes = []string{"", "string", "int", "float", "bool"}

func verifStr(v any) string { return fmt.Sprintf("%v", v) }

// the documented coercions (rules_conditions.md, Datatype)
func verifToInt(v any) (int, bool) {
	switch x := v.(type) {
	case int:
		return x, true
	case int64:
		return int(x), true
	case float64:
		return int(x), true
	case string:
		n, err := strconv.Atoi(x)
		return n, err == nil
	}
	return 0, false
}

func verifToFloat(v any) (float64, bool) {
	switch x := v.(type) {
	case int:
		return float64(x), true
	case int64:
		return float64(x), true
	case float64:
		return x, true
	case string:
		f, err := strconv.ParseFloat(x, 64)
		return f, err == nil
	}
	return 0, false
}

func verifToBool(v any) bool {
	b, err := strconv.ParseBool(verifStr(v))
	return err == nil && b
}

func verifCmpResult(op string, c int) bool {
	switch op {
	case config.EQ:
		return c == 0
	case config.NEQ:
		return c != 0
	case config.GT:
		return c > 0
	case config.GTE:
		return c >= 0
	case config.LT:
		return c < 0
	}
	return c <= 0
}

func verifCmpInt(a, b int) int {
	if a < b {
		return -1
	}
	if a > b {
		return 1
	}
	return 0
}

func verifCmpFloat(a, b float64) int {
	if a < b {
		return -1
	}
	if a > b {
		return 1
	}
	return 0
}

// untyped comparison: the span value's type decides; the Value is converted to it; strings only
// compare with strings, booleans with booleans (false < true)
func verifUntyped(sv, cv any) (int, bool) {
	switch a := sv.(type) {
	case int64:
		switch b := cv.(type) {
		case int:
			return verifCmpInt(int(a), b), true
		case float64:
			return verifCmpFloat(float64(a), b), true
		}
	case float64:
		switch b := cv.(type) {
		case int:
			return verifCmpFloat(a, float64(b)), true
		case float64:
			return verifCmpFloat(a, b), true
		}
	case bool:
		if b, ok := cv.(bool); ok {
			if a == b {
				return 0, true
			}
			if b {
				return -1, true
			}
			return 1, true
		}
	case string:
		if b, ok := cv.(string); ok {
			return strings.Compare(a, b), true
		}
	}
	return 0, false
}

func verifIsCompare(op string) bool {
	switch op {
	case config.EQ, config.NEQ, config.GT, config.GTE, config.LT, config.LTE:
		return true
	}
	return false
}

// verifRefMatch: does the condition match a span on which the field has value sv (exists) or is
// absent; defined=false where the documentation does not define the outcome (see the harness).
func verifRefMatch(op, dt string, cv, sv any, exists bool) (match, defined bool) {
	if !exists {
		// "When a Field is absent in all spans within a trace, the associated rule does not apply"
		return op == config.NotExists, true
	}
	if _, isArray := sv.([]any); isArray && op != config.Exists && op != config.NotExists {
		return false, false // no documented comparison for array values: no-panic only
	}
	switch op {
	case config.Exists:
		return true, true
	case config.NotExists:
		return false, true
	case config.StartsWith:
		return strings.HasPrefix(verifStr(sv), verifStr(cv)), true
	case config.Contains:
		return strings.Contains(verifStr(sv), verifStr(cv)), true
	case config.DoesNotContain:
		return !strings.Contains(verifStr(sv), verifStr(cv)), true
	case config.In, config.NotIn:
		var list []any
		switch l := cv.(type) {
		case []any:
			list = l
		case string, int, float64:
			list = []any{l}
		default:
			return false, false
		}
		found := false
		switch dt {
		case "", "string":
			for _, e := range list {
				found = found || verifStr(e) == verifStr(sv)
			}
		case "int":
			n, ok := verifToInt(sv)
			if !ok {
				return false, false // a value that is not a number is neither in nor not-in a list of numbers
			}
			for _, e := range list {
				m, ok2 := verifToInt(e)
				found = found || (ok2 && m == n)
			}
		case "float":
			f, ok := verifToFloat(sv)
			if !ok {
				return false, false
			}
			for _, e := range list {
				g, ok2 := verifToFloat(e)
				found = found || (ok2 && g == f)
			}
		default:
			return false, false
		}
		return found == (op == config.In), true
	}
	if !verifIsCompare(op) {
		return false, false
	}
	switch dt {
	case "string":
		return verifCmpResult(op, strings.Compare(verifStr(sv), verifStr(cv))), true
	case "int":
		c, ok := verifToInt(cv)
		if !ok {
			return false, false // not a usable configuration
		}
		n, ok := verifToInt(sv)
		if !ok {
			return false, true
		}
		return verifCmpResult(op, verifCmpInt(n, c)), true
	case "float":
		c, ok := verifToFloat(cv)
		if !ok {
			return false, false
		}
		f, ok := verifToFloat(sv)
		if !ok {
			return false, true
		}
		if f != f || c != c {
			return false, false
		}
		return verifCmpResult(op, verifCmpFloat(f, c)), true
	case "bool":
		if op != config.EQ && op != config.NEQ {
			return false, false
		}
		return (verifToBool(sv) == verifToBool(cv)) == (op == config.EQ), true
	}
	if sv == nil || cv == nil {
		return false, false
	}
	c, ok := verifUntyped(sv, cv)
	if !ok {
		return false, true // the comparison fails
	}
	return verifCmpResult(op, c), true
}

func verifSmall(tag string) int64 {
	k := zz.NondetInt64(tag)
	zz.Assume(k >= -999)
	zz.Assume(k <= 999)
	return k
}

var verifFloatSamples = []float64{1.5, -2, 0.25, 1, 0}

// a float: symbolic where only arithmetic sees it, one of a few samples where it is printed
func verifFloat(tag string, printed bool) float64 {
	if printed {
		return verifFloatSamples[zz.Choose(tag+".sample", len(verifFloatSamples))]
	}
	f := zz.NondetFloat64(tag)
	zz.Assume(f == f)
	return f
}

// a string: one arbitrary byte where it is compared as a string, a decimal numeral (or a
// non-numeral) where it is parsed as a number
func verifString(tag string, parsed bool) string {
	if parsed {
		if zz.NondetBool(tag + ".numeral") {
			n := zz.NondetUint64(tag + ".digits")
			zz.Assume(n <= 99)
			return zz.Decimal(n, 2)
		}
		return "x"
	}
	return zz.NondetStringN(tag, 1)
}

// C08 (matchers) / C28: one condition of every operator and datatype with a Value of every type
// (string, int, float, bool, list, none) against a span whose field is absent or holds a string,
// int64, float64, bool or nil: the real outcome (Init, then the Matches closure or the untyped
// comparison, through GetSampleRate) equals the documented semantics, and nothing panics even
// when Init rejects the condition.
func Harness_C08_C28_matchers() {
	zz.MustCover("(*github.com/honeycombio/refinery/config.RulesBasedSamplerCondition).Init",
		"github.com/honeycombio/refinery/sample.conditionMatchesValue",
		"github.com/honeycombio/refinery/sample.compare")
	zz.Bound("string_len", 1)
	zz.Bound("int_abs_max", 999)
	op := verifOps[zz.Choose("op", len(verifOps))]
	dt := verifDatatypes[zz.Choose("datatype", len(verifDatatypes))]
	printed := dt == "string" || dt == "bool" || !verifIsCompare(op)
	parsed := dt == "int" || dt == "float"
	// untyped comparisons see the numbers themselves: any 64-bit integer, not only small ones
	wide := dt == "" && verifIsCompare(op)

	var cv any
	vk := zz.Choose("valueKind", 6)
	if op == config.MatchesRegexp {
		// the regexp library is run natively on concrete patterns and subjects (environment, not subject)
		cv = []any{"^a", "(", "[0-9]", 7, true}[zz.Choose("pattern", 5)]
		vk = -1
	}
	switch vk {
	case 0:
		cv = verifString("value.str", parsed)
	case 1:
		if wide {
			cv = zz.NondetInt("value.wideInt") // any integer: large IDs must compare exactly
		} else {
			cv = int(verifSmall("value.int"))
		}
	case 2:
		cv = verifFloat("value.float", printed)
	case 3:
		cv = zz.NondetBool("value.bool")
	case 4:
		cv = []any{int(verifSmall("value.list0")), verifString("value.list1", parsed)}
	}

	var sv any
	exists := true
	sk := zz.Choose("spanKind", 7) // 6 = present with a nil value
	if op == config.MatchesRegexp && sk != 0 {
		sv = []any{"a", "b7", "", int64(7), true, 1.5, nil}[zz.Choose("subject", 7)]
		sk = -1
	}
	switch sk {
	case 0:
		exists = false
	case 1:
		sv = verifString("span.str", parsed)
	case 2:
		if wide {
			sv = zz.NondetInt64("span.wideInt")
		} else {
			sv = verifSmall("span.int")
		}
	case 3:
		sv = verifFloat("span.float", printed)
	case 4:
		sv = zz.NondetBool("span.bool")
	case 5:
		// an array-valued field (JSON / msgpack arrays are legal field values): no documented
		// comparison, but evaluating any condition against it must not panic
		sv = []any{int64(1), "x"}
	}

	m := map[string]any{"other": int64(1)}
	if exists {
		m["f"] = sv
	}
	cfg := &config.MockConfig{}
	sp := &types.Span{Event: &types.Event{Data: types.NewPayload(cfg, m)}, TraceID: "T", IsRoot: true}
	tr := verifOneSpanTrace(sp)
	scope := verifScope("scope")
	s := verifRules(&config.RulesBasedSamplerConfig{Rules: []*config.RulesBasedSamplerRule{{Name: "r", SampleRate: 1, Scope: scope,
		Conditions: []*config.RulesBasedSamplerCondition{{Field: "f", Operator: op, Value: cv, Datatype: dt}}}}})
	_, _, reason, _ := s.GetSampleRate(tr)
	got := reason != "no rule matched"
	zz.Observe("matched", got)

	if op == config.MatchesRegexp {
		return // no-panic only: regular expressions are outside the encoded semantics
	}
	want, defined := verifRefMatch(op, dt, cv, sv, exists)
	if !defined {
		return
	}
	if !exists {
		zz.Assert(got == want, "a condition on a field absent from every span matches only if its operator is not-exists")
	} else {
		zz.Assert(got == want, "the condition matches exactly when the documented comparison holds")
	}
}
