//go:build verif

package sample

import (
	"math"

	"github.com/tinylib/msgp/msgp"

	"github.com/honeycombio/refinery/config"
	zz "github.com/honeycombio/refinery/internal/zzverif"
	"github.com/honeycombio/refinery/types"
)

func verifBE(tag byte, v uint64, n int) []byte {
	b := []byte{tag}
	for i := n - 1; i >= 0; i-- {
		b = append(b, byte(v>>(8*uint(i))))
	}
	return b
}

// a span whose field "f" arrives as the given msgpack bytes, through the real ingestion decoder;
// memo: "f" is a sampler key field (decoded at ingestion) or not (decoded on demand)
func verifWireSpan(raw []byte, memo bool) *types.Span {
	fl := "zzz"
	if memo {
		fl = "f"
	}
	cfg := &config.MockConfig{TraceIdFieldNames: []string{"trace.trace_id"}, ParentIdFieldNames: []string{"trace.parent_id"},
		Samplers: map[string]*config.V2SamplerChoice{"env": {DynamicSampler: &config.DynamicSamplerConfig{SampleRate: 1, FieldList: []string{fl}}}}}
	in := msgp.AppendMapHeader(nil, 2)
	in = msgp.AppendString(in, "f")
	in = append(in, raw...)
	in = msgp.AppendString(in, "other")
	in = msgp.AppendInt64(in, 1)
	cu := types.NewCoreFieldsUnmarshaler(types.CoreFieldsUnmarshalerOptions{Config: cfg, APIKey: "k", Env: "env", Dataset: "d"})
	p := types.NewPayload(cfg, nil)
	rest, err := cu.UnmarshalMsgpFirstEvent(in, &p)
	zz.Assert(err == nil, "well-formed event accepted")
	zz.Assert(len(rest) == 0, "whole map consumed")
	return &types.Span{Event: &types.Event{Data: p}, TraceID: "T", IsRoot: true}
}

func verifOneSpanTrace(sp *types.Span) *types.Trace {
	tr := &types.Trace{TraceID: "T"}
	tr.AddSpan(sp)
	tr.RootSpan = sp
	return tr
}

// C09 (numeric wire types): one numerically equal value carried as msgpack int64 / int32 / uint64 /
// uint32 / uint8 (integers) or float64 / float32 (floats), decoded at ingestion or on demand, gives
// the same rule outcome for every comparison operator, datatype and condition value, and the same
// dynamic sample key.
func Harness_C09_wire_numeric() {
	zz.MustCover("(*github.com/honeycombio/refinery/types.Payload).Get",
		"(*github.com/honeycombio/refinery/sample.RulesBasedSampler).GetSampleRate",
		"(*github.com/honeycombio/refinery/sample.traceKey).build")
	zz.AssumeHashInjective()
	zz.Bound("spans", 1)
	var rawA, rawB []byte
	isFloat := zz.NondetBool("float")
	if isFloat {
		f := math.Float32frombits(zz.NondetUint32("f32bits"))
		zz.Assume(f == f)
		zz.Assume(f != 0)
		rawA = verifBE(0xcb, math.Float64bits(float64(f)), 8)
		rawB = verifBE(0xca, uint64(math.Float32bits(f)), 4)
	} else {
		v := zz.NondetUint64("value")
		rawA = verifBE(0xd3, v, 8) // int64: what a Go client and the JSON path produce
		switch zz.Choose("encoding", 4) {
		case 0:
			zz.Assume(v < 1<<63)
			rawB = verifBE(0xcf, v, 8) // uint64
		case 1:
			zz.Assume(v < 1<<32)
			rawB = verifBE(0xce, v, 4) // uint32
		case 2:
			zz.Assume(v < 1<<8)
			rawB = verifBE(0xcc, v, 1) // uint8
		default:
			zz.Assume(v < 1<<31)
			rawB = verifBE(0xd2, v, 4) // int32
		}
	}
	memo := zz.NondetBool("memoised")
	ta := verifOneSpanTrace(verifWireSpan(rawA, memo))
	tb := verifOneSpanTrace(verifWireSpan(rawB, memo))

	// the dynamic sample key
	ka, _ := newTraceKey([]string{"f"}, false).build(ta)
	kb, _ := newTraceKey([]string{"f"}, false).build(tb)
	zz.Assert(ka == kb, "numerically equal values give the same sample key whatever their wire type")

	// a rule comparing the field
	ops := []string{config.EQ, config.NEQ, config.GT, config.GTE, config.LT, config.LTE, config.In, config.NotIn}
	op := ops[zz.Choose("op", len(ops))]
	dts := []string{"", "int", "float"}
	dt := dts[zz.Choose("datatype", len(dts))]
	var val any
	if zz.NondetBool("floatValue") {
		fv := zz.NondetFloat64("K.float")
		zz.Assume(fv == fv)
		val = fv
	} else {
		val = zz.NondetInt("K.int")
	}
	mk := func() *RulesBasedSampler {
		return verifRules(&config.RulesBasedSamplerConfig{Rules: []*config.RulesBasedSamplerRule{{Name: "r", SampleRate: 1,
			Conditions: []*config.RulesBasedSamplerCondition{{Field: "f", Operator: op, Value: val, Datatype: dt}}}}})
	}
	_, _, ra, _ := mk().GetSampleRate(ta)
	_, _, rb, _ := mk().GetSampleRate(tb)
	zz.Observe("matchedA", ra != "no rule matched")
	zz.Assert(ra == rb, "numerically equal values match the same rules whatever their wire type")
}
