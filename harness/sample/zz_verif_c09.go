//go:build verif

package sample

import (
	"math"

	"github.com/tinylib/msgp/msgp"

	"github.com/honeycombio/refinery/config"
	zz "github.com/honeycombio/refinery/internal/zzverif"
	"github.com/honeycombio/refinery/types"
)

func verifBE(tag byte, v uint64, n int) []byte {
	b := []byte{tag}
	for i := n - 1; i >= 0; i-- {
		b = append(b, byte(v>>(8*uint(i))))
	}
	return b
}

// a span whose field "f" arrives as the given msgpack bytes, through the real ingestion decoder;
// memo: "f" is a sampler key field (decoded at ingestion) or not (decoded on demand)
func verifWireSpan(raw []byte, memo bool) *types.Span {
	fl := "zzz"
	if memo {
		fl = "f"
	}
	cfg := &config.MockConfig{TraceIdFieldNames: []string{"trace.trace_id"}, ParentIdFieldNames: []string{"trace.parent_id"},
		Samplers: map[string]*config.V2SamplerChoice{"env": {DynamicSampler: &config.DynamicSamplerConfig{SampleRate: 1, FieldList: []string{fl}}}}}
	in := msgp.AppendMapHeader(nil, 2)
	in = msgp.AppendString(in, "f")
	in = append(in, raw...)
	in = msgp.AppendString(in, "other")
	in = msgp.AppendInt64(in, 1)
	cu := types.NewCoreFieldsUnmarshaler(types.CoreFieldsUnmarshalerOptions{Config: cfg, APIKey: "k", Env: "env", Dataset: "d"})
	p := types.NewPayload(cfg, nil)
	rest, err := cu.UnmarshalMsgpFirstEvent(in, &p)
	zz.Assert(err == nil, "well-formed event accepted")
	zz.Assert(len(rest) == 0, "whole map consumed")
	return &types.Span{Event: &types.Event{Data: p}, TraceID: "T", IsRoot: true}
}

func verifOneSpanTrace(sp *types.Span) *types.Trace {
	tr := &types.Trace{TraceID: "T"}
	tr.AddSpan(sp)
	tr.RootSpan = sp
	return tr
}

// the same number in two msgpack encodings: int64 vs int32 / uint64 / uint32 / uint8 / float64 of an
// integer (intAsFloat), or float64 vs float32 of a float
func verifTwoEncodings() (rawA, rawB []byte, intAsFloat, isFloat bool) {
	if zz.NondetBool("float") {
		f := math.Float32frombits(zz.NondetUint32("f32bits"))
		zz.Assume(f == f)
		zz.Assume(f != 0)
		return verifBE(0xcb, math.Float64bits(float64(f)), 8), verifBE(0xca, uint64(math.Float32bits(f)), 4), false, true
	}
	v := zz.NondetUint64("value")
	rawA = verifBE(0xd3, v, 8) // int64: what a Go client and the JSON path produce
	switch zz.Choose("encoding", 5) {
	case 4:
		// the same integer sent as a float64 (what a JSON client's 2.0 or a float-typed producer gives)
		if zz.Thorough() {
			zz.Assume(v < 1<<53)
		} else {
			zz.Assume(v < 1<<21)
		}
		rawB = verifBE(0xcb, math.Float64bits(float64(v)), 8)
		intAsFloat = true
	case 0:
		zz.Assume(v < 1<<63)
		rawB = verifBE(0xcf, v, 8) // uint64
	case 1:
		zz.Assume(v < 1<<32)
		rawB = verifBE(0xce, v, 4) // uint32
	case 2:
		zz.Assume(v < 1<<8)
		rawB = verifBE(0xcc, v, 1) // uint8
	default:
		zz.Assume(v < 1<<31)
		rawB = verifBE(0xd2, v, 4) // int32
	}
	return rawA, rawB, intAsFloat, false
}

// C09 (numeric wire types, sample key): one numerically equal value carried as msgpack int64 /
// int32 / uint64 / uint32 / uint8 or float64 / float32, decoded at ingestion or on demand, gives
// the same dynamic sample key.
func Harness_C09_wire_key() {
	zz.MustCover("(*github.com/honeycombio/refinery/types.Payload).Get",
		"(*github.com/honeycombio/refinery/sample.traceKey).build")
	zz.AssumeHashInjective()
	zz.Bound("spans", 1)
	rawA, rawB, intAsFloat, _ := verifTwoEncodings()
	_ = intAsFloat // an integral float prints like the integer (model: floatString), so this pair is in too
	memo := zz.NondetBool("memoised")
	ta := verifOneSpanTrace(verifWireSpan(rawA, memo))
	tb := verifOneSpanTrace(verifWireSpan(rawB, memo))
	ka, _ := newTraceKey([]string{"f"}, false).build(ta)
	kb, _ := newTraceKey([]string{"f"}, false).build(tb)
	zz.Assert(ka == kb, "numerically equal values give the same sample key whatever their wire type")
}

// C09 (numeric wire types, rules): the same pairs of encodings, plus an integer sent as a float64 (what
// every JSON number becomes), give the same rule outcome for every comparison operator, in / not-in,
// the string-coerced operators, every datatype and condition value.
func Harness_C09_wire_rules() {
	zz.MustCover("(*github.com/honeycombio/refinery/types.Payload).Get",
		"(*github.com/honeycombio/refinery/sample.RulesBasedSampler).GetSampleRate")
	zz.Bound("spans", 1)
	rawA, rawB, _, isFloat := verifTwoEncodings()
	memo := zz.NondetBool("memoised")
	ta := verifOneSpanTrace(verifWireSpan(rawA, memo))
	tb := verifOneSpanTrace(verifWireSpan(rawB, memo))
	ops := []string{config.EQ, config.NEQ, config.GT, config.GTE, config.LT, config.LTE, config.In, config.NotIn,
		config.StartsWith, config.Contains, config.DoesNotContain}
	opi := zz.Choose("op", len(ops))
	op := ops[opi]
	dts := []string{"", "int", "float", "string"}
	dt := dts[zz.Choose("datatype", len(dts))]
	if isFloat {
		// a non-integral float's rendering is an opaque token whatever its width: the string-coerced
		// operators add nothing for the float32 / float64 pair
		zz.Assume(dt != "string")
		zz.Assume(opi < 8)
	}
	var val any
	if zz.NondetBool("floatValue") {
		fv := zz.NondetFloat64("K.float")
		zz.Assume(fv == fv)
		val = fv
	} else {
		val = zz.NondetInt("K.int")
	}
	mk := func() *RulesBasedSampler {
		return verifRules(&config.RulesBasedSamplerConfig{Rules: []*config.RulesBasedSamplerRule{{Name: "r", SampleRate: 1,
			Conditions: []*config.RulesBasedSamplerCondition{{Field: "f", Operator: op, Value: val, Datatype: dt}}}}})
	}
	_, _, ra, _ := mk().GetSampleRate(ta)
	_, _, rb, _ := mk().GetSampleRate(tb)
	zz.Observe("matchedA", ra != "no rule matched")
	zz.Assert(ra == rb, "numerically equal values match the same rules whatever their wire type")
}
