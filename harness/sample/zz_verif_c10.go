//go:build verif

package sample

import (
	"math"

	"github.com/honeycombio/refinery/config"
	zz "github.com/honeycombio/refinery/internal/zzverif"
	"github.com/honeycombio/refinery/logger"
	"github.com/honeycombio/refinery/metrics"
	"github.com/honeycombio/refinery/types"
)

func verifDet(rate int) *DeterministicSampler {
	d := &DeterministicSampler{Config: &config.DeterministicSamplerConfig{SampleRate: rate}, Logger: &logger.NullLogger{}, Metrics: &metrics.NullMetrics{}}
	d.Start()
	return d
}

// C10 (deterministic sampler): for every rate in [1,2^31] and every trace ID (sha1 as an
// uninterpreted function of the ID): purity, keep-all at rate 1, nesting, threshold = floor(MAX/N).
func Harness_C10_deterministic() {
	zz.MustCover("(*github.com/honeycombio/refinery/sample.DeterministicSampler).Start",
		"(*github.com/honeycombio/refinery/sample.DeterministicSampler).GetSampleRate")
	zz.Bound("rate_max_log2", 31)
	zz.Bound("trace_id_len", 2)
	n := zz.NondetInt("rateN")
	m := zz.NondetInt("rateM")
	zz.Assume(n >= 1)
	zz.Assume(n <= 1<<31)
	zz.Assume(m >= 1)
	zz.Assume(m <= n)
	zz.SearchOnReplay("traceID") // the hash of the ID is an uninterpreted function in the engine
	id := zz.NondetStringN("traceID", 2)
	dN := verifDet(n)
	dM := verifDet(m)
	dN2 := verifDet(n)
	tr := &types.Trace{TraceID: id}
	// a second trace object with the same ID but different other state
	tr2 := &types.Trace{TraceID: id, Dataset: "other", APIKey: "k2"}
	tr2.SetSampleRate(7)
	rN, keepN, _, _ := dN.GetSampleRate(tr)
	_, keepM, _, _ := dM.GetSampleRate(tr)
	_, keepN2, _, _ := dN2.GetSampleRate(tr2)
	zz.Observe("keepN", keepN)
	zz.Assert(keepN == keepN2, "decision depends only on (trace ID, rate)")
	zz.Assert(zz.Implies(keepN, keepM), "nested: kept at N implies kept at every M <= N")
	zz.Assert(rN == uint(n), "reported rate is the configured rate")
	if n <= 1 {
		zz.Assert(keepN, "rate <= 1 keeps everything")
	}
	// threshold is exactly floor(MaxUint32/N), stated with a 64-bit division (the code divides in 32 bits);
	// the acceptance set therefore has floor((2^32-1)/N)+1 of the 2^32 hash values, i.e. a fraction in [1/N, 1/N+2^-32]
	if n > 1 {
		zz.Assert(uint64(dN.upperBound) == uint64(math.MaxUint32)/uint64(n), "threshold = floor(MAX/N)")
	}
	zz.Assert(keepN == zz.Or(n <= 1, zz.UF32sha1(id+shardingSalt) <= dN.upperBound), "keep iff hash <= threshold")
}

// C10/C28: Start must not panic for any rate the rules validation admits (any integer: the
// validator sets no minimum).
func Harness_C10_C28_start_nopanic() {
	zz.MustCover("(*github.com/honeycombio/refinery/sample.DeterministicSampler).Start")
	n := zz.NondetInt("rate")
	d := verifDet(n)
	id := zz.NondetStringN("traceID", 1)
	r, keep, _, _ := d.GetSampleRate(&types.Trace{TraceID: id})
	if n <= 1 {
		zz.Assert(keep, "rate <= 1 keeps everything")
		zz.Assert(r == 1, "rate <= 1 reports rate 1")
	}
}
