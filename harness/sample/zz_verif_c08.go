//go:build verif

package sample

import (
	"github.com/honeycombio/refinery/config"
	zz "github.com/honeycombio/refinery/internal/zzverif"
	"github.com/honeycombio/refinery/logger"
	"github.com/honeycombio/refinery/metrics"
	"github.com/honeycombio/refinery/types"
)

// ---- a reference model of the documented rule semantics (rules.md, rules_conditions.md) ----

type verifSpanV struct {
	hasA, hasB bool
	a, b       int64
}

type verifTraceV struct {
	spans []verifSpanV
	root  int // index of the root span, -1 = none has arrived
}

const verifNumCondKinds = 11

type verifCondV struct {
	kind int
	k    int64 // the condition's integer Value
	hb   bool  // has-root-span's Value
}

// the real condition for a kind
func (c verifCondV) build() *config.RulesBasedSamplerCondition {
	switch c.kind {
	case 0:
		return &config.RulesBasedSamplerCondition{Field: "a", Operator: config.Exists}
	case 1:
		return &config.RulesBasedSamplerCondition{Field: "a", Operator: config.NotExists}
	case 2:
		return &config.RulesBasedSamplerCondition{Field: "a", Operator: config.EQ, Value: int(c.k), Datatype: "int"}
	case 3:
		return &config.RulesBasedSamplerCondition{Field: "root.a", Operator: config.EQ, Value: int(c.k), Datatype: "int"}
	case 4:
		return &config.RulesBasedSamplerCondition{Fields: []string{"a", "b"}, Operator: config.EQ, Value: int(c.k), Datatype: "int"}
	case 5:
		return &config.RulesBasedSamplerCondition{Operator: config.HasRootSpan, Value: c.hb}
	case 6:
		return &config.RulesBasedSamplerCondition{Field: "?.NUM_DESCENDANTS", Operator: config.GTE, Value: int(c.k), Datatype: "int"}
	case 7:
		return &config.RulesBasedSamplerCondition{Field: "a", Operator: config.NEQ, Value: int(c.k), Datatype: "int"}
	case 8:
		return &config.RulesBasedSamplerCondition{Fields: []string{"root.a", "b"}, Operator: config.EQ, Value: int(c.k), Datatype: "int"}
	case 9:
		return &config.RulesBasedSamplerCondition{Fields: []string{"b", "root.a"}, Operator: config.EQ, Value: int(c.k), Datatype: "int"}
	}
	return &config.RulesBasedSamplerCondition{Field: "root.a", Operator: config.NotExists}
}

// does the condition hold when evaluated for span i of the trace (documented semantics)
func (c verifCondV) holds(t verifTraceV, i int) bool {
	sp := t.spans[i]
	rootHasA := false
	var rootA int64
	if t.root >= 0 {
		rootHasA, rootA = t.spans[t.root].hasA, t.spans[t.root].a
	}
	switch c.kind {
	case 0:
		return sp.hasA
	case 1:
		return !sp.hasA
	case 2:
		return zz.And(sp.hasA, sp.a == c.k)
	case 3:
		return zz.And(rootHasA, rootA == c.k)
	case 4: // Fields: the first field that exists on the span is the one used
		if sp.hasA {
			return sp.a == c.k
		}
		return zz.And(sp.hasB, sp.b == c.k)
	case 5:
		return (t.root >= 0) == c.hb
	case 6:
		return int64(len(t.spans)) >= c.k
	case 7:
		return zz.And(sp.hasA, sp.a != c.k)
	case 8:
		if rootHasA {
			return rootA == c.k
		}
		return zz.And(sp.hasB, sp.b == c.k)
	case 9:
		if sp.hasB {
			return sp.b == c.k
		}
		return zz.And(rootHasA, rootA == c.k)
	}
	return !rootHasA
}

type verifRuleV struct {
	scope string
	conds []verifCondV // nil = no conditions: matches everything
	drop  bool
	rate  int
}

func (r verifRuleV) matches(t verifTraceV) bool {
	if r.conds == nil {
		return true
	}
	if r.scope == "span" {
		// all conditions on one span; has-root-span cannot be used with span scope (the rule is skipped)
		for _, c := range r.conds {
			if c.kind == 5 {
				return false
			}
		}
		any := false
		for i := range t.spans {
			all := true
			for _, c := range r.conds {
				all = zz.And(all, c.holds(t, i))
			}
			any = zz.Or(any, all)
		}
		return any
	}
	// trace scope: every condition matched by some span
	all := true
	for _, c := range r.conds {
		some := false
		for i := range t.spans {
			some = zz.Or(some, c.holds(t, i))
		}
		all = zz.And(all, some)
	}
	return all
}

func (t verifTraceV) build(cfg config.Config) *types.Trace { return t.buildOrder(cfg, false) }

func (t verifTraceV) buildOrder(cfg config.Config, reversed bool) *types.Trace {
	tr := &types.Trace{TraceID: "T"}
	for j := range t.spans {
		i := j
		if reversed {
			i = len(t.spans) - 1 - j
		}
		sv := t.spans[i]
		m := map[string]any{"other": int64(1)}
		if sv.hasA {
			m["a"] = sv.a
		}
		if sv.hasB {
			m["b"] = sv.b
		}
		sp := &types.Span{Event: &types.Event{Data: types.NewPayload(cfg, m)}, TraceID: "T", IsRoot: i == t.root}
		tr.AddSpan(sp)
		if i == t.root {
			tr.RootSpan = sp
		}
	}
	return tr
}

func verifSmallInt(tag string) int64 {
	k := zz.NondetInt64(tag)
	zz.Assume(k >= -4)
	zz.Assume(k <= 4)
	return k
}

func verifRules(cfg *config.RulesBasedSamplerConfig) *RulesBasedSampler {
	s := &RulesBasedSampler{Config: cfg, Logger: &logger.NullLogger{}, Metrics: &metrics.NullMetrics{}, SamplerFactory: verifFactory(nil)}
	s.Start()
	return s
}

func verifScope(tag string) string {
	return []string{"", "trace", "span"}[zz.Choose(tag, 3)]
}

// C08 (structure) / C28: one rule with 0..2 conditions of every kind (exists, not-exists, typed =
// and !=, root. prefix, Fields with and without root., has-root-span, ?.NUM_DESCENDANTS), every
// scope, against a trace of two spans with every presence pattern of the fields, every root
// position (or none) and symbolic field values: the outcome equals the documented semantics.
func Harness_C08_C09_C28_structure() {
	zz.MustCover("(*github.com/honeycombio/refinery/sample.RulesBasedSampler).GetSampleRate",
		"github.com/honeycombio/refinery/sample.ruleMatchesTrace",
		"github.com/honeycombio/refinery/sample.ruleMatchesSpanInTrace",
		"github.com/honeycombio/refinery/sample.extractValueFromSpan")
	zz.Bound("rules", 1)
	zz.Bound("conditions_per_rule", 2)
	zz.Bound("spans", 2)
	zz.Bound("value_abs_max", 4)
	cfg := &config.MockConfig{}

	nspans := 2
	if zz.Thorough() {
		nspans = 1 + zz.Choose("nspans", 3)
	}
	tv := verifTraceV{root: zz.Choose("root", nspans+1) - 1}
	for i := 0; i < nspans; i++ {
		sv := verifSpanV{hasA: zz.NondetBool("hasA"), a: verifSmallInt("a")}
		sv.hasB, sv.b = zz.NondetBool("hasB"), verifSmallInt("b")
		tv.spans = append(tv.spans, sv)
	}

	rv := verifRuleV{scope: verifScope("scope"), drop: zz.NondetBool("drop"), rate: int(verifSmallInt("rate"))}
	nconds := zz.Choose("nconds", 3)
	for i := 0; i < nconds; i++ {
		rv.conds = append(rv.conds, verifCondV{kind: zz.Choose("kind", verifNumCondKinds), k: verifSmallInt("K"), hb: zz.NondetBool("hasRootValue")})
	}
	zz.Assume(rv.rate >= 0)
	rule := &config.RulesBasedSamplerRule{Name: "r", Scope: rv.scope, Drop: rv.drop, SampleRate: rv.rate}
	for _, c := range rv.conds {
		rule.Conditions = append(rule.Conditions, c.build())
	}
	s := verifRules(&config.RulesBasedSamplerConfig{Rules: []*config.RulesBasedSamplerRule{rule}})

	rate, keep, reason, _ := s.GetSampleRate(tv.build(cfg))
	want := rv.matches(tv)
	rate2, keep2, reason2, _ := s.GetSampleRate(tv.buildOrder(cfg, true))
	zz.Assert(zz.And(rate2 == rate, reason2 == reason), "[C09] the rule applied does not depend on the order in which the spans arrived")
	zz.Assert(zz.Or(keep2 == keep, rate > 1), "[C09] the decision does not depend on the order in which the spans arrived (up to the rule's random draw)")
	zz.Observe("rate", rate)
	zz.Observe("matched", reason != "no rule matched")
	if want {
		zz.Assert(reason != "no rule matched", "a rule whose conditions all match under the documented semantics is applied")
		zz.Assert(rate == uint(rv.rate), "a matching rule reports its SampleRate")
		zz.Assert(zz.Implies(rv.drop, !keep), "a matching drop rule drops the trace")
		zz.Assert(zz.Implies(rv.rate == 0, !keep), "rate 0 keeps nothing")
		zz.Assert(zz.Implies(zz.And(!rv.drop, rv.rate == 1), keep), "rate 1 keeps everything")
		if rv.scope == "span" {
			zz.Assert(reason == "rules/span/r", "reason names the scope and the rule")
		} else {
			zz.Assert(reason == "rules/trace/r", "reason names the scope and the rule")
		}
	} else {
		zz.Assert(reason == "no rule matched", "a rule with a condition that does not match is not applied")
		zz.Assert(zz.And(keep, rate == 1), "no rule matched: kept at rate 1")
	}
}

// C08 (order and actions): three rules with one symbolic integer condition each, a drop flag, a
// rate or a downstream deterministic sampler: the first matching rule in configuration order
// decides; a downstream sampler's answer is passed through. C04: a trace the rules keep has a
// sampling rate of at least 1 (the collector multiplies span rates by it).
func Harness_C04_C08_order() {
	zz.MustCover("(*github.com/honeycombio/refinery/sample.RulesBasedSampler).GetSampleRate")
	zz.Bound("rules", 3)
	zz.Bound("spans", 1)
	cfg := &config.MockConfig{}
	a := zz.NondetInt64("a")
	zz.Assume(a > -1<<40)
	zz.Assume(a < 1<<40)
	tv := verifTraceV{root: 0, spans: []verifSpanV{{hasA: true, a: a}}}
	ops := []string{config.EQ, config.NEQ, config.LT, config.GTE}
	const n = 3
	var rules []*config.RulesBasedSamplerRule
	var ks [n]int64
	var opi [n]int
	var drop [n]bool
	var rates [n]int
	var down [n]bool
	names := []string{"r0", "r1", "r2"}
	for i := 0; i < n; i++ {
		ks[i] = zz.NondetInt64("K")
		zz.Assume(ks[i] > -1<<40)
		zz.Assume(ks[i] < 1<<40)
		opi[i] = zz.Choose("op", len(ops))
		drop[i] = zz.NondetBool("drop")
		rates[i] = int(zz.NondetInt64("rate"))
		zz.Assume(rates[i] >= 0)
		zz.Assume(rates[i] <= 1000)
		r := &config.RulesBasedSamplerRule{Name: names[i], Drop: drop[i], SampleRate: rates[i],
			Conditions: []*config.RulesBasedSamplerCondition{{Field: "a", Operator: ops[opi[i]], Value: int(ks[i]), Datatype: "int"}}}
		if i == 1 {
			down[i] = zz.NondetBool("downstream")
			if down[i] {
				r.Sampler = &config.RulesBasedDownstreamSampler{DeterministicSampler: &config.DeterministicSamplerConfig{SampleRate: 1}}
				r.SampleRate = 0
			}
		}
		rules = append(rules, r)
	}
	s := verifRules(&config.RulesBasedSamplerConfig{Rules: rules})
	rate, keep, reason, _ := s.GetSampleRate(tv.build(cfg))
	zz.Observe("rate", rate)
	first := -1
	for i := 0; i < n && first < 0; i++ {
		var m bool
		switch opi[i] {
		case 0:
			m = a == ks[i]
		case 1:
			m = a != ks[i]
		case 2:
			m = a < ks[i]
		default:
			m = a >= ks[i]
		}
		if m {
			first = i
		}
	}
	if first < 0 {
		zz.Assert(reason == "no rule matched", "no rule matches: no rule is applied")
		zz.Assert(zz.And(keep, rate == 1), "no rule matched: kept at rate 1")
		return
	}
	if down[first] {
		zz.Assert(reason == "rules/trace/"+names[first]+":deterministic/always", "the first matching rule delegates to its downstream sampler")
		zz.Assert(zz.And(keep, rate == 1), "the downstream sampler's answer is passed through")
		return
	}
	zz.Assert(reason == "rules/trace/"+names[first], "the first matching rule in configuration order is applied")
	zz.Assert(rate == uint(rates[first]), "the applied rule's rate is reported")
	zz.Assert(zz.Implies(drop[first], !keep), "a matching drop rule drops")
	zz.Assert(zz.Implies(rates[first] == 0, !keep), "rate 0 keeps nothing")
	zz.Assert(zz.Implies(keep, rate >= 1), "a kept trace has a sampling rate of at least 1")
	zz.Assert(zz.Implies(zz.And(!drop[first], rates[first] == 1), keep), "rate 1 keeps everything")
}
