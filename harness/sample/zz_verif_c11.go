//go:build verif

package sample

import (
	"github.com/honeycombio/refinery/config"
	zz "github.com/honeycombio/refinery/internal/zzverif"
	"github.com/honeycombio/refinery/types"
)

// a field value of any of the types the samplers see, or absent (nil, false)
func verifAnyValue(tag string) (any, bool) {
	v, ok, _ := verifAnyValueT(tag, -1)
	return v, ok
}

// ty < 0: any type (or absent); otherwise a value of that type
func verifAnyValueT(tag string, ty int) (any, bool, int) {
	if ty < 0 {
		ty = zz.Choose(tag+".type", 5)
	}
	v, ok := verifValueOfType(tag, ty)
	return v, ok, ty
}

func verifValueOfType(tag string, ty int) (any, bool) {
	switch ty {
	case 0:
		s := zz.NondetStringN(tag+".str", 1)
		zz.Assume(s[0] != ',')
		zz.Assume(s[0] < 0x80) // the delimiter '•' is multi-byte; single ASCII bytes are delimiter-free
		return s, true
	case 1:
		return zz.NondetInt64(tag + ".int"), true
	case 2:
		f := zz.NondetFloat64(tag + ".float")
		zz.Assume(f == f)
		zz.Assume(f != 0) // +0 and -0 are equal but print differently; numeric equality across encodings is C09
		return f, true
	case 3:
		return zz.NondetBool(tag + ".bool"), true
	}
	return nil, false
}

func verifTraceOf(cfg config.Config, vals []any, present []bool, order []int, rootIdx int) *types.Trace {
	tr := &types.Trace{TraceID: "T"}
	for _, i := range order {
		m := map[string]any{"other": int64(1)}
		if present[i] {
			m["f"] = vals[i]
		}
		sp := &types.Span{Event: &types.Event{Data: types.NewPayload(cfg, m)}, TraceID: "T", IsRoot: i == rootIdx}
		tr.AddSpan(sp)
		if i == rootIdx {
			tr.RootSpan = sp
		}
	}
	return tr
}

// C11: the sample key is a function of the set of distinct values of the configured field:
// reordering or duplicating spans does not change it (unless UseTraceLength counts them), and two
// traces whose value sets differ get different keys. Values of every type, wyhash assumed
// collision-free on the values in play (the statement's < 100 distinct values regime).
func Harness_C11_key() {
	zz.MustCover("(*github.com/honeycombio/refinery/sample.traceKey).build",
		"(*github.com/honeycombio/refinery/sample.distinctValue).AddAsString",
		"(*github.com/honeycombio/refinery/sample.distinctValue).Values")
	zz.AssumeHashInjective()
	zz.Bound("spans", 2)
	zz.Bound("fields", 1)
	cfg := &config.MockConfig{}
	useLen := zz.NondetBool("useTraceLength")
	v0, p0, ty0 := verifAnyValueT("span0", -1)
	v1, p1 := verifAnyValue("span1")
	vals, pres := []any{v0, v1}, []bool{p0, p1}
	key := func(order []int) string {
		k, _ := newTraceKey([]string{"f"}, useLen).build(verifTraceOf(cfg, vals, pres, order, -1))
		return k
	}
	k01 := key([]int{0, 1})
	k10 := key([]int{1, 0})
	zz.Assert(k01 == k10, "reordering spans does not change the key")
	k011 := key([]int{0, 1, 1})
	if !useLen {
		zz.Assert(k011 == k01, "duplicating a span does not change the key")
	}
	// a second trace with one span whose value is fresh: same key iff its value set equals {v0,v1}
	// (same type as span0's: an int and a float that are numerically equal print alike by design)
	w0, q0 := verifValueOfType("other0", ty0)
	if p0 && p1 && q0 {
		ka, _ := newTraceKey([]string{"f"}, false).build(verifTraceOf(cfg, []any{v0, v0}, []bool{true, true}, []int{0, 1}, -1))
		kb, _ := newTraceKey([]string{"f"}, false).build(verifTraceOf(cfg, []any{w0, w0}, []bool{true, true}, []int{0, 1}, -1))
		if v0 != w0 {
			zz.Assert(ka != kb, "traces whose field takes different values get different keys")
		} else {
			zz.Assert(ka == kb, "traces whose field takes the same value get the same key")
		}
	}
}
