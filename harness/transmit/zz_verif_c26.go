//go:build verif

package transmit

import (
	"context"
	"encoding/json"
	"errors"
	"io"
	"net/http"
	"strings"
	"time"

	"github.com/jonboulle/clockwork"
	"github.com/tinylib/msgp/msgp"

	"github.com/honeycombio/refinery/config"
	zz "github.com/honeycombio/refinery/internal/zzverif"
	"github.com/honeycombio/refinery/logger"
	"github.com/honeycombio/refinery/metrics"
	"github.com/honeycombio/refinery/types"
)

type verifTimeoutErr struct{}

func (verifTimeoutErr) Error() string { return "timeout" }
func (verifTimeoutErr) Timeout() bool { return true }

type verifAttempt struct {
	kind     int // 0: 200 with per-event statuses, 1: 429 Retry-After 0, 2: 503 no Retry-After, 3: 500, 4: transport error, 5: timeout
	statuses []int
}

type verifUpstream struct {
	plan     []verifAttempt
	calls    int
	counts   []int // events announced by the array header of each request body
	sizes    []int // body length of each request
	urls     []string
	keys     []string
	pending  []int // statuses of the response being decoded (engine-side json model)
	bodies   [][]byte
	// during, if set, runs while a request is in flight (after the upstream has read its body);
	// alwaysOK names API keys whose requests are always answered 200 with all events accepted
	during   func(call int, key string)
	alwaysOK string
}

var verifUp *verifUpstream

func (u *verifUpstream) roundTrip(req *http.Request) (*http.Response, error) {
	i := u.calls
	u.calls++
	body, _ := io.ReadAll(req.Body)
	n, _, err := msgp.ReadArrayHeaderBytes(body)
	if err != nil {
		n = 1 << 30
	}
	u.counts = append(u.counts, int(n))
	u.sizes = append(u.sizes, len(body))
	u.urls = append(u.urls, req.URL.String())
	u.keys = append(u.keys, req.Header.Get("X-Honeycomb-Team"))
	u.bodies = append(u.bodies, body)
	if u.during != nil {
		u.during(i, req.Header.Get("X-Honeycomb-Team"))
	}
	// the upstream's behaviour for this attempt is chosen when the attempt happens
	a := verifAttempt{}
	ok := u.alwaysOK != "" && req.Header.Get("X-Honeycomb-Team") == u.alwaysOK
	if !ok {
		a.kind = zz.Choose("attempt", 6)
	}
	if ok {
		for j := 0; j < int(n); j++ {
			a.statuses = append(a.statuses, 202)
		}
	} else if a.kind == 0 {
		k := int(n)
		if zz.NondetBool("tooFewResponses") {
			k--
		}
		firstBad := zz.NondetBool("firstEventRejected")
		for j := 0; j < k; j++ {
			st := 202
			if j == 0 && firstBad {
				st = 400
			}
			a.statuses = append(a.statuses, st)
		}
	}
	u.plan = append(u.plan, a)
	_ = i
	resp := func(code int, body string, hdr http.Header) (*http.Response, error) {
		if hdr == nil {
			hdr = http.Header{}
		}
		return &http.Response{StatusCode: code, Header: hdr, Body: io.NopCloser(strings.NewReader(body))}, nil
	}
	switch a.kind {
	case 0:
		u.pending = a.statuses
		var rs []batchResponse
		for _, s := range a.statuses {
			rs = append(rs, batchResponse{Status: s})
		}
		b := []byte("[]")
		if !zz.InEngine() {
			b, _ = json.Marshal(rs)
		}
		return resp(200, string(b), nil)
	case 1:
		return resp(429, "", http.Header{"Retry-After": {"0"}})
	case 2:
		return resp(503, "", nil)
	case 3:
		return resp(500, "oops", nil)
	case 4:
		return nil, errors.New("connection refused")
	}
	return nil, verifTimeoutErr{}
}

type verifTransport struct{}

func (verifTransport) RoundTrip(req *http.Request) (*http.Response, error) { return verifUp.roundTrip(req) }

// engine: the HTTP client hands the request to the upstream stub (http.Client.Do wraps transport
// errors in *url.Error, which keeps Timeout(); the model returns the error as is)
//
//verif:model (*net/http.Client).Do only=C26
func verifClientDo(c *http.Client, req *http.Request) (*http.Response, error) {
	return verifUp.roundTrip(req)
}

// engine: decoding the JSON batch response = the statuses the stub decided
//
//verif:model encoding/json.Unmarshal only=C26
func verifJSONUnmarshal(data []byte, v any) error {
	if p, ok := v.(*[]batchResponse); ok {
		var rs []batchResponse
		for _, s := range verifUp.pending {
			rs = append(rs, batchResponse{Status: s})
		}
		*p = rs
	}
	return nil
}

type verifUpDown struct {
	metrics.NullMetrics
	up, down int
	name     string
}

func (m *verifUpDown) Up(n string) {
	if n == m.name {
		m.up++
	}
}
func (m *verifUpDown) Down(n string) {
	if n == m.name {
		m.down++
	}
}

type verifSleepClock struct {
	clockwork.Clock
	now    time.Time
	sleeps int
}

func (c *verifSleepClock) Now() time.Time                   { return c.now }
func (c *verifSleepClock) Sleep(time.Duration)              { c.sleeps++ }
func (c *verifSleepClock) Until(t time.Time) time.Duration { return t.Sub(c.now) }

// C26 (sendBatch): 1..3 events for one destination with serialised sizes from {small, 0.6 MB,
// 2.6 MB, over the 1 MB per-event limit}, upstream behaviour per attempt from {200 with per-event
// statuses (possibly too few), 429 Retry-After, 503, 500, transport error, timeout}: every event
// gets exactly one outcome (the queued-items gauge returns to zero), every sendable event is in
// exactly one successfully delivered request or reported failed, each request body <= 5 MB and
// to the events' own destination, at most two attempts per sub-batch.
func Harness_C26_sendbatch() {
	zz.MustCover("(*github.com/honeycombio/refinery/transmit.DirectTransmission).sendBatch",
		"(*github.com/honeycombio/refinery/transmit.DirectTransmission).handleBatchFailure",
		"(*github.com/honeycombio/refinery/transmit.batchedEvent).MarshalMsg")
	zz.Bound("events", 6)
	clk := &verifSleepClock{now: time.Unix(1700000000, 0)}
	met := &verifUpDown{name: "q"}
	d := &DirectTransmission{Config: &config.MockConfig{}, Logger: &logger.NullLogger{}, Metrics: met, Clock: clk, maxBatchSize: 100,
		eventBatches: map[transmitKey]*eventBatch{}, httpClient: &http.Client{Transport: verifTransport{}}, userAgent: "verif"}
	d.metricKeys.updownQueuedItems = "q"
	// shapes: 1-2 events of any size class, or 6 events of 0.9 MB (5.4 MB: must be split 5 + 1)
	sizes := []int{100, 900_000, 1_100_000}
	shape := zz.Choose("batchShape", 3)
	n := 1 + shape
	if shape == 2 {
		n = 6
	}
	var evs []*types.Event
	sendable := 0
	for i := 0; i < n; i++ {
		sz := 900_000
		if shape < 2 {
			sz = sizes[zz.Choose("size", len(sizes))]
		}
		ev := &types.Event{APIHost: "https://api.honeycomb.io", APIKey: "key1", Dataset: "ds 1", SampleRate: 1, Timestamp: time.Unix(1700000000, 0)}
		if zz.InEngine() {
			ev.Data.MetaSpanCount = int64(sz) // engine: the modelled Payload.MarshalMsg emits this many bytes
		} else {
			// native replay: a real payload that really serialises to about sz bytes
			ev.Data = types.NewPayload(&config.MockConfig{}, map[string]any{"blob": strings.Repeat("x", sz-16)})
		}
		evs = append(evs, ev)
		if sz <= apiMaxEventSize {
			sendable++
		}
		met.Up("q") // as EnqueueEvent does
	}
	verifUp = &verifUpstream{}
	d.sendBatch(evs)

	zz.Assert(met.down == n, "every event gets exactly one outcome (the queued-items gauge returns to zero)")
	delivered := 0
	for i := range verifUp.counts {
		zz.Assert(verifUp.sizes[i] <= apiMaxBatchSize, "no request body exceeds 5 MB")
		zz.Assert(verifUp.urls[i] == "https://api.honeycomb.io/1/batch/ds%201", "requests go to the events' own host and dataset")
		zz.Assert(verifUp.keys[i] == "key1", "with the events' own API key")
		zz.Assert(verifUp.counts[i] >= 1 && verifUp.counts[i] <= sendable, "a request carries only events of this batch")
		k := 6
		if i < len(verifUp.plan) {
			k = verifUp.plan[i].kind
		}
		if k == 0 || k == 3 {
			delivered += verifUp.counts[i]
		}
	}
	zz.Assert(verifUp.calls <= 2*n, "at most two attempts per sub-batch")
	zz.Assert(delivered <= sendable, "no event is delivered twice")
}

// C26 / C19 (destinations): two events with symbolic API key and dataset (0..2 bytes each) and one
// of two hosts are enqueued; whatever is batched together shares host, key and dataset (sendBatch, checked above, addresses a
// batch by its first event), and each event is in exactly one batch.
func Harness_C26_C19_destinations() {
	zz.MustCover("(*github.com/honeycombio/refinery/transmit.DirectTransmission).EnqueueEvent")
	zz.Bound("events", 2)
	zz.Bound("key_len", 2)
	zz.Bound("dataset_len", 2)
	clk := &verifSleepClock{now: time.Unix(1700000000, 0)}
	met := &verifUpDown{name: "q"}
	d := &DirectTransmission{Config: &config.MockConfig{}, Logger: &logger.NullLogger{}, Metrics: met, Clock: clk, maxBatchSize: 100,
		eventBatches: map[transmitKey]*eventBatch{}, httpClient: &http.Client{Transport: verifTransport{}}, userAgent: "verif"}
	d.metricKeys.updownQueuedItems = "q"
	hosts := []string{"https://api.honeycomb.io", "http://peer:8081"}
	var evs []*types.Event
	for i := 0; i < 2; i++ {
		ev := &types.Event{Context: context.Background(), APIHost: hosts[zz.Choose("host", 2)], APIKey: zz.NondetString("apiKey", 2),
			Dataset: zz.NondetString("dataset", 2), SampleRate: 1, Timestamp: time.Unix(1700000000, 0)}
		if zz.InEngine() {
			ev.Data.MetaSpanCount = 100
		} else {
			ev.Data = types.NewPayload(&config.MockConfig{}, map[string]any{"f": "x"})
		}
		evs = append(evs, ev)
		d.EnqueueEvent(ev)
	}
	seen := [2]int{}
	for _, b := range d.eventBatches {
		if len(b.events) == 0 {
			continue
		}
		first := b.events[0]
		for _, ev := range b.events {
			zz.Assert(zz.And(ev.APIHost == first.APIHost, zz.And(ev.APIKey == first.APIKey, ev.Dataset == first.Dataset)),
				"events batched together share host, API key and dataset")
			for i := range evs {
				if ev == evs[i] {
					seen[i]++
				}
			}
		}
	}
	zz.Assert(zz.And(seen[0] == 1, seen[1] == 1), "every enqueued event is in exactly one batch")
}

// C26 (a retried request carries the same events): batch A (1-2 events) is sent with every upstream
// behaviour per attempt; while one of A's requests is in flight (the upstream has read the body and
// not yet answered) or before A starts, another batch B (1-2 events, other key, other sizes) is sent
// through the same transmission and delivered. sync.Pool is modelled as reusing what was returned
// to it (zz.PoolReuse), so a buffer handed back too early is handed to B. Every request of A
// announces A's events and a retry carries byte for byte what the first attempt carried; B's
// request announces B's events; every event gets exactly one outcome.
func Harness_C26_retry_body() {
	zz.MustCover("(*github.com/honeycombio/refinery/transmit.DirectTransmission).sendBatch")
	zz.PoolReuse()
	zz.Bound("events_per_batch", 2)
	zz.Bound("concurrent_batches", 2)
	clk := &verifSleepClock{now: time.Unix(1700000000, 0)}
	met := &verifUpDown{name: "q"}
	d := &DirectTransmission{Config: &config.MockConfig{}, Logger: &logger.NullLogger{}, Metrics: met, Clock: clk, maxBatchSize: 100,
		eventBatches: map[transmitKey]*eventBatch{}, httpClient: &http.Client{Transport: verifTransport{}}, userAgent: "verif"}
	d.metricKeys.updownQueuedItems = "q"
	mk := func(n int, key string, rate uint, sz int) []*types.Event {
		var evs []*types.Event
		for i := 0; i < n; i++ {
			ev := &types.Event{APIHost: "https://api.honeycomb.io", APIKey: key, Dataset: "ds", SampleRate: rate, Timestamp: time.Unix(1700000000+int64(rate), 0)}
			if zz.InEngine() {
				ev.Data.MetaSpanCount = int64(sz)
			} else {
				ev.Data = types.NewPayload(&config.MockConfig{}, map[string]any{"blob": strings.Repeat(key[3:], sz-16)})
			}
			evs = append(evs, ev)
			met.Up("q")
		}
		return evs
	}
	nA := 1 + zz.Choose("eventsA", 2)
	nB := 1 + zz.Choose("eventsB", 2)
	a := mk(nA, "keyA", 1, 100)
	b := mk(nB, "keyB", 7, 300)
	when := zz.Choose("otherBatchRuns", 3) // 0: before A; 1, 2: while A's first / second request is in flight
	verifUp = &verifUpstream{alwaysOK: "keyB"}
	callsOfA, ranB := 0, false
	verifUp.during = func(call int, key string) {
		if key != "keyA" {
			return
		}
		callsOfA++
		if callsOfA == when && !ranB {
			ranB = true
			d.sendBatch(b)
		}
	}
	if when == 0 {
		ranB = true
		d.sendBatch(b)
	}
	d.sendBatch(a)
	if !ranB { // A needed no second attempt: B goes afterwards
		d.sendBatch(b)
	}

	zz.Assert(met.down == nA+nB, "every event of both batches gets exactly one outcome")
	var firstA []byte
	for i := range verifUp.bodies {
		if verifUp.keys[i] == "keyA" {
			zz.Assert(verifUp.counts[i] == nA, "a request of batch A announces A's events (also on the retry)")
			if firstA == nil {
				firstA = verifUp.bodies[i]
			} else {
				zz.Assert(string(verifUp.bodies[i]) == string(firstA), "a retried request carries the same bytes as the first attempt")
			}
		} else {
			zz.Assert(verifUp.keys[i] == "keyB" && verifUp.counts[i] == nB, "the other batch's request announces its own events")
		}
	}
}
