//go:build verif

package generics

import (
	"time"

	"github.com/jonboulle/clockwork"

	zz "github.com/honeycombio/refinery/internal/zzverif"
)

type verifClock struct {
	clockwork.Clock
	now time.Time
}

func (c *verifClock) Now() time.Time                  { return c.now }
func (c *verifClock) Since(t time.Time) time.Duration { return c.now.Sub(t) }

func verifSteps() int {
	if zz.Thorough() {
		return 4
	}
	return 3
}

// C32 (set): after any sequence of <= K adds/removes on 2 keys at arbitrary non-decreasing
// instants, at an arbitrary later query instant every query gives the same answer and an
// item is present iff the instant is within TTL of its latest add.
func Harness_C32_set() {
	zz.MustCover("(*github.com/honeycombio/refinery/generics.SetWithTTL[string]).Contains",
		"(*github.com/honeycombio/refinery/generics.SetWithTTL[string]).cleanup",
		"(*github.com/honeycombio/refinery/generics.SetWithTTL[string]).Add")
	K := verifSteps()
	zz.Bound("operations", K)
	zz.Bound("keys", 2)
	zz.Bound("instant_bits", 40)
	ttl := zz.NondetInt64("ttl")
	zz.Assume(ttl >= 0)
	zz.Assume(ttl < 1<<40)
	clk := &verifClock{}
	s := &SetWithTTL[string]{Items: map[string]time.Time{}, TTL: time.Duration(ttl), Clock: clk}
	keys := [2]string{"a", "b"}
	var has [2]bool
	var last [2]int64
	t := zz.NondetInt64("t0")
	zz.Assume(t >= 0)
	zz.Assume(t < 1<<40)
	for i := 0; i < K; i++ {
		clk.now = zz.MonoTime(t)
		k := zz.Choose("key", 2)
		switch zz.Choose("op", 3) {
		case 0:
			s.Add(keys[k])
			has[k], last[k] = true, t
		case 1:
			s.Remove(keys[k])
			has[k] = false
		}
		dt := zz.NondetInt64("dt")
		zz.Assume(dt >= 0)
		zz.Assume(dt < 1<<40)
		t += dt
	}
	clk.now = zz.MonoTime(t)
	pre := -1
	switch zz.Choose("firstQuery", 3) {
	case 1:
		pre = len(s.Members())
	case 2:
		pre = s.Length()
	}
	c0, c1 := s.Contains("a"), s.Contains("b")
	mem := s.Members()
	n := s.Length()
	if pre >= 0 {
		zz.Assert(pre == n, "whichever query is asked first at an instant gives the same answer")
	}
	m0, m1 := false, false
	for _, x := range mem {
		if x == "a" {
			m0 = true
		}
		if x == "b" {
			m1 = true
		}
	}
	want0 := zz.And(has[0], t <= last[0]+ttl)
	want1 := zz.And(has[1], t <= last[1]+ttl)
	cnt := 0
	if want0 {
		cnt++
	}
	if want1 {
		cnt++
	}
	zz.Observe("c0", c0)
	zz.Observe("n", n)
	zz.Assert(c0 == m0, "Contains agrees with Members at every instant")
	zz.Assert(c1 == m1, "Contains agrees with Members at every instant (second key)")
	zz.Assert(n == len(mem), "Length agrees with Members")
	zz.Assert(c0 == want0, "present iff within TTL of the latest add")
	zz.Assert(c1 == want1, "present iff within TTL of the latest add (second key)")
	zz.Assert(n == cnt, "Length counts exactly the live items")
}

// C32 (map): same for MapWithTTL Set/Delete/Get/Keys/Values/Length.
func Harness_C32_map() {
	zz.MustCover("(*github.com/honeycombio/refinery/generics.MapWithTTL[string, int]).Get",
		"(*github.com/honeycombio/refinery/generics.MapWithTTL[string, int]).cleanup",
		"(*github.com/honeycombio/refinery/generics.MapWithTTL[string, int]).Set",
		"(*github.com/honeycombio/refinery/generics.MapWithTTL[string, int]).SortedValues")
	K := verifSteps()
	zz.Bound("operations", K)
	zz.Bound("keys", 2)
	ttl := zz.NondetInt64("ttl")
	zz.Assume(ttl >= 0)
	zz.Assume(ttl < 1<<40)
	clk := &verifClock{}
	m := &MapWithTTL[string, int]{Items: map[string]itemWithTTL[int]{}, TTL: time.Duration(ttl), Clock: clk}
	keys := [2]string{"a", "b"}
	var has [2]bool
	var last [2]int64
	var val [2]int
	t := zz.NondetInt64("t0")
	zz.Assume(t >= 0)
	zz.Assume(t < 1<<40)
	for i := 0; i < K; i++ {
		clk.now = zz.MonoTime(t)
		k := zz.Choose("key", 2)
		switch zz.Choose("op", 3) {
		case 0:
			v := zz.NondetInt("val")
			m.Set(keys[k], v)
			has[k], last[k], val[k] = true, t, v
		case 1:
			m.Delete(keys[k])
			has[k] = false
		}
		dt := zz.NondetInt64("dt")
		zz.Assume(dt >= 0)
		zz.Assume(dt < 1<<40)
		t += dt
	}
	clk.now = zz.MonoTime(t)
	// whichever listing is asked first (none of the others has swept expired entries yet) already
	// reports exactly the live entries
	pre := -1
	switch zz.Choose("firstQuery", 5) {
	case 1:
		pre = len(m.SortedValues())
	case 2:
		pre = len(m.Values())
	case 3:
		pre = m.Length()
	case 4:
		pre = len(m.SortedKeys())
	}
	v0, ok0 := m.Get("a")
	v1, ok1 := m.Get("b")
	ks := m.Keys()
	vs := m.Values()
	n := m.Length()
	k0, k1 := false, false
	for _, x := range ks {
		if x == "a" {
			k0 = true
		}
		if x == "b" {
			k1 = true
		}
	}
	want0 := zz.And(has[0], t <= last[0]+ttl)
	want1 := zz.And(has[1], t <= last[1]+ttl)
	cnt := 0
	if want0 {
		cnt++
	}
	if want1 {
		cnt++
	}
	sk := m.SortedKeys()
	sv := m.SortedValues()
	zz.Assert(len(sk) == len(ks), "SortedKeys agrees with Keys")
	zz.Assert(len(sv) == len(sk), "SortedValues agrees with SortedKeys at every instant")
	if len(sv) == 2 {
		zz.Assert(sv[0] == val[0], "SortedValues lists the latest values in key order")
		zz.Assert(sv[1] == val[1], "SortedValues lists the latest values in key order (second)")
	}
	if len(sv) == 1 && len(sk) == 1 {
		zz.Assert(sv[0] == zz.IteInt(sk[0] == "a", val[0], val[1]), "SortedValues lists the value of the listed key")
	}
	zz.Assert(ok0 == k0, "Get agrees with Keys at every instant")
	zz.Assert(ok1 == k1, "Get agrees with Keys at every instant (second key)")
	zz.Assert(n == len(ks), "Length agrees with Keys")
	zz.Assert(len(vs) == len(ks), "Values agrees with Keys")
	zz.Assert(ok0 == want0, "present iff within TTL of the latest set")
	zz.Assert(ok1 == want1, "present iff within TTL of the latest set (second key)")
	zz.Assert(n == cnt, "Length counts exactly the live items")
	if pre >= 0 {
		zz.Assert(pre == cnt, "the first listing asked at an instant lists exactly the live items")
	}
	if ok0 {
		zz.Assert(v0 == val[0], "Get returns the latest value")
	}
	if ok1 {
		zz.Assert(v1 == val[1], "Get returns the latest value (second key)")
	}
}
