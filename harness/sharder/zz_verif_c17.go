//go:build verif

package sharder

import (
	zz "github.com/honeycombio/refinery/internal/zzverif"
	"github.com/honeycombio/refinery/logger"
)

type verifPeers struct {
	list []string
	self string
	cb   func()
}

func (p *verifPeers) GetPeers() ([]string, error)              { return p.list, nil }
func (p *verifPeers) GetInstanceID() (string, error)           { return p.self, nil }
func (p *verifPeers) RegisterUpdatedPeersCallback(cb func()) { p.cb = cb }
func (p *verifPeers) Ready() error                             { return nil }
func (p *verifPeers) Start() error                             { return nil }

// VerifNewSharder builds and starts the real DeterministicSharder on a harness peer list.
func VerifNewSharder(self string, list []string) (*DeterministicSharder, func([]string)) {
	p := &verifPeers{list: list, self: self}
	d := &DeterministicSharder{Logger: &logger.NullLogger{}, Peers: p}
	if err := d.Start(); err != nil {
		panic(err)
	}
	return d, func(nl []string) { p.list = nl; p.cb() }
}

var verifAddrs = []string{"http://n1:8081", "http://n2:8081", "http://n3:8081", "http://n0:8081"}

func verifPerm(n, k int) []string {
	// the k-th permutation of the first n addresses
	perms := [][]int{{0, 1, 2}, {0, 2, 1}, {1, 0, 2}, {1, 2, 0}, {2, 0, 1}, {2, 1, 0}}
	var out []string
	for _, i := range perms[k] {
		if i < n {
			out = append(out, verifAddrs[i])
		}
	}
	return out
}

// C17: two nodes given the same 1..3 peer addresses in any two orders compute the same owner for
// every trace ID (wyhash as an uninterpreted function of the ID), the owner is one of the peers,
// and after membership changes MyShard is still this node and WhichShard still answers among the
// current peers.
func Harness_C17_agreement() {
	zz.MustCover("(*github.com/honeycombio/refinery/sharder.DeterministicSharder).loadPeerList",
		"(*github.com/honeycombio/refinery/sharder.DeterministicSharder).WhichShard")
	zz.Bound("peers_max", 4)
	zz.Bound("trace_id_len", 2)
	n := 1 + zz.Choose("peerCount", 3)
	k1, k2 := zz.Choose("orderOnNodeA", 6), zz.Choose("orderOnNodeB", 6)
	la, lb := verifPerm(n, k1), verifPerm(n, k2)
	a, changeA := VerifNewSharder(la[0], la)
	b, _ := VerifNewSharder(lb[len(lb)-1], lb)
	zz.SearchOnReplay("traceID") // the hash of the ID is an uninterpreted function in the engine
	id := zz.NondetStringN("traceID", 2)
	oa, ob := a.WhichShard(id), b.WhichShard(id)
	zz.Assert(oa.GetAddress() == ob.GetAddress(), "nodes with the same peer list in any order compute the same owner")
	in := false
	for _, p := range la {
		in = zz.Or(in, oa.GetAddress() == p)
	}
	zz.Assert(in, "the owner is one of the peers")
	zz.Assert(a.MyShard().GetAddress() == la[0], "MyShard is this node")
	// membership change: a peer whose address sorts before every other joins, or the last peer leaves
	var nl []string
	if zz.NondetBool("join") {
		nl = append([]string{verifAddrs[3]}, la...)
	} else if n > 1 {
		for _, p := range la {
			if p != la[len(la)-1] || p == la[0] {
				nl = append(nl, p)
			}
		}
	} else {
		nl = la
	}
	changeA(nl)
	zz.Assert(a.MyShard().GetAddress() == la[0], "MyShard is still this node after membership changes")
	o2 := a.WhichShard(id)
	in2 := false
	for _, p := range nl {
		in2 = zz.Or(in2, o2.GetAddress() == p)
	}
	zz.Assert(in2, "after a membership change the owner is one of the current peers")
	c, _ := VerifNewSharder(nl[len(nl)-1], nl)
	zz.Assert(c.WhichShard(id).GetAddress() == o2.GetAddress(), "a node started on the new list agrees with a node that reloaded to it")
}
