//go:build verif

package configwatcher

import (
	"context"

	"go.opentelemetry.io/otel/trace/noop"

	"github.com/honeycombio/refinery/config"
	zz "github.com/honeycombio/refinery/internal/zzverif"
	"github.com/honeycombio/refinery/logger"
)

type verifReloadCounter struct {
	*config.MockConfig
	reloads int
}

func (c *verifReloadCounter) Reload(opts ...config.ReloadedConfigDataOption) error {
	c.reloads++
	return nil
}

// C27 (pubsub triggers): every well-formed reload notification, whatever its timestamp relative
// to earlier ones (same second, earlier, later), triggers exactly one reload attempt (the reload
// itself decides whether anything changed); malformed ones trigger none. No trigger is lost.
func Harness_C27_triggers() {
	zz.MustCover("(*github.com/honeycombio/refinery/internal/configwatcher.ConfigWatcher).SubscriptionListener")
	zz.Bound("messages", 3)
	cfg := &verifReloadCounter{MockConfig: &config.MockConfig{}}
	cw := &ConfigWatcher{Config: cfg, Logger: &logger.NullLogger{}, Tracer: noop.Tracer{}}
	msgs := []string{"2024-01-01T00:00:05Z", "2024-01-01T00:00:03Z", "2024-01-01T00:00:07Z", "not a time"}
	for i := 0; i < 3; i++ {
		m := zz.Choose("message", len(msgs))
		before := cfg.reloads
		cw.SubscriptionListener(context.Background(), msgs[m])
		if m < 3 {
			zz.Assert(cfg.reloads == before+1, "a reload notification triggers one reload attempt, also when it is no newer than an earlier one")
		} else {
			zz.Assert(cfg.reloads == before, "a malformed notification triggers nothing")
		}
	}
}
