//go:build verif

package peer

import (
	"context"
	"time"

	"github.com/jonboulle/clockwork"

	"github.com/honeycombio/refinery/generics"
	zz "github.com/honeycombio/refinery/internal/zzverif"
	"github.com/honeycombio/refinery/logger"
	"github.com/honeycombio/refinery/metrics"
)

// C18 (codec) / C28: a membership message for any address (0..3 arbitrary bytes, commas included)
// and any comma-free instance ID (the documented IDs are 8 hex digits) parses back to exactly the
// same action, address and ID; and any string of up to 4 bytes is parsed or rejected without a panic.
func Harness_C18_C28_codec() {
	zz.MustCover("(*github.com/honeycombio/refinery/internal/peer.peerCommand).unmarshal",
		"(*github.com/honeycombio/refinery/internal/peer.peerCommand).marshal")
	zz.Bound("address_len", 3)
	zz.Bound("id_len", 2)
	deeper := 0
	if zz.Thorough() {
		deeper = 2 // addresses up to 5 bytes, messages up to 6
	}
	zz.Bound("message_len", 4+deeper)
	if zz.NondetBool("arbitraryMessage") {
		msg := zz.NondetString("msg", 4+deeper)
		c := &peerCommand{}
		ok := c.unmarshal(msg)
		zz.Observe("parsed", ok)
		if ok {
			zz.Assert(zz.Or(c.action == Register, c.action == Unregister), "[C28] a parsed message has a known action")
		}
		return
	}
	addr := zz.NondetString("address", 3+deeper)
	id := zz.NondetStringN("id", 2)
	zz.Assume(id[0] != ',')
	zz.Assume(id[1] != ',')
	act := []peerAction{Register, Unregister}[zz.Choose("action", 2)]
	msg := newPeerCommand(act, addr, id).marshal()
	c := &peerCommand{}
	ok := c.unmarshal(msg)
	zz.Assert(ok, "a marshalled command parses")
	if ok {
		zz.Assert(c.action == act, "the action round-trips")
		zz.Assert(c.address == addr, "the address round-trips exactly")
		zz.Assert(c.id == id, "the instance ID round-trips exactly")
	}
}

type verifClock struct {
	clockwork.Clock
	now time.Time
}

func (c *verifClock) Now() time.Time                  { return c.now }
func (c *verifClock) Since(t time.Time) time.Duration { return c.now.Sub(t) }

// C18 (membership): one running node processes any history of <= K membership events about two
// other nodes (register, unregister, in any order, at arbitrary non-decreasing instants, with reads
// of the peer list in between). At any later instant its peer list contains a node exactly when the
// node's latest processed message is a registration no older than the entry timeout: so nodes that
// keep publishing stay listed, stopped or crashed nodes are gone one entry timeout after their last
// registration, and a registration that overtakes its unregistration is forgotten after the timeout.
func Harness_C18_membership() {
	zz.MustCover("(*github.com/honeycombio/refinery/internal/peer.RedisPubsubPeers).listen",
		"(*github.com/honeycombio/refinery/internal/peer.RedisPubsubPeers).checkHash",
		"(*github.com/honeycombio/refinery/generics.MapWithTTL[string, string]).cleanup")
	K := 4
	if zz.Thorough() {
		K = 6
	}
	zz.Bound("events", K)
	zz.Bound("nodes", 2)
	ttl := int64(PeerEntryTimeout)
	clk := &verifClock{}
	changes := 0
	p := &RedisPubsubPeers{Metrics: &metrics.NullMetrics{}, Logger: &logger.NullLogger{},
		peers: generics.NewMapWithTTL[string, string](PeerEntryTimeout, nil)}
	p.peers.Clock = clk
	p.callbacks = []func(){func() { changes++ }}
	ids := [2]string{"aaaaaaaa", "bbbbbbbb"}
	addrs := [2]string{"http://a:8081", "http://b:8081"}
	var has [2]bool
	var last [2]int64
	t := zz.NondetInt64("t0")
	zz.Assume(t >= 0)
	zz.Assume(t < 1<<40)
	for i := 0; i < K; i++ {
		clk.now = zz.MonoTime(t)
		k := zz.Choose("node", 2)
		switch zz.Choose("event", 3) {
		case 0:
			p.listen(context.Background(), newPeerCommand(Register, addrs[k], ids[k]).marshal())
			has[k], last[k] = true, t
		case 1:
			p.listen(context.Background(), newPeerCommand(Unregister, addrs[k], ids[k]).marshal())
			has[k] = false
		default:
			p.peers.SortedKeys()
		}
		dt := zz.NondetInt64("dt")
		zz.Assume(dt >= 0)
		zz.Assume(dt < 1<<40)
		t += dt
	}
	clk.now = zz.MonoTime(t)
	keys := p.peers.SortedKeys()
	vals := p.peers.SortedValues()
	var in [2]bool
	for _, x := range keys {
		for j := range ids {
			if x == ids[j] {
				in[j] = true
			}
		}
	}
	for j := range ids {
		want := zz.And(has[j], t <= last[j]+ttl)
		zz.Observe("listed", in[j])
		zz.Assert(in[j] == want, "a node is listed exactly when its latest processed message is a registration within the entry timeout")
	}
	zz.Assert(len(vals) == len(keys), "one address per listed node")
	for i, x := range keys {
		for j := range ids {
			if x == ids[j] {
				zz.Assert(vals[i] == addrs[j], "a listed node has the address it registered")
			}
		}
	}
}
