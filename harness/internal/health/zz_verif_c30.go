//go:build verif

package health

import (
	"runtime"
	"sync/atomic"
	"time"

	"github.com/jonboulle/clockwork"

	zz "github.com/honeycombio/refinery/internal/zzverif"
	"github.com/honeycombio/refinery/logger"
	"github.com/honeycombio/refinery/metrics"
)

type verifTicker struct {
	ch    chan time.Time
	calls atomic.Int64 // number of times the loop (re-)entered its select
}

func (t *verifTicker) Chan() <-chan time.Time {
	t.calls.Add(1)
	return t.ch
}
func (t *verifTicker) Stop()                 {}
func (t *verifTicker) Reset(d time.Duration) {}

type verifClock struct {
	clockwork.Clock
	tick *verifTicker
}

func (c *verifClock) NewTicker(d time.Duration) clockwork.Ticker {
	c.tick = &verifTicker{ch: make(chan time.Time)}
	return c.tick
}

func verifHealth() (*Health, *verifClock) {
	clk := &verifClock{}
	h := &Health{Clock: clk, Metrics: &metrics.NullMetrics{}, Logger: &logger.NullLogger{}}
	h.Start()
	for clk.tick == nil || clk.tick.calls.Load() < 1 {
		runtime.Gosched()
	}
	return h, clk
}

// one health tick through the REAL ticker loop; returns when the loop is back in its select
func (c *verifClock) oneTick() {
	before := c.tick.calls.Load()
	c.tick.ch <- time.Time{}
	for c.tick.calls.Load() <= before {
		runtime.Gosched()
	}
}

// C30 (state machine): any sequence of K operations over 2 subsystems with symbolic timeouts;
// after every operation IsAlive/IsReady equal the documented function of the reports.
func Harness_C30_machine() {
	zz.MustCover("(*github.com/honeycombio/refinery/internal/health.Health).ticker",
		"(*github.com/honeycombio/refinery/internal/health.Health).Ready",
		"(*github.com/honeycombio/refinery/internal/health.Health).checkAlive",
		"(*github.com/honeycombio/refinery/internal/health.Health).checkReady")
	K := 4
	if zz.Thorough() {
		K = 6
	}
	zz.Bound("operations", K)
	zz.Bound("subsystems", 2)
	h, clk := verifHealth()
	names := [2]string{"a", "b"}
	var registered, everSeen, readyFlag [2]bool
	var timeout, left [2]int64
	for i := 0; i < K; i++ {
		op := zz.Choose("op", 4)
		s := zz.Choose("subsystem", 2)
		switch op {
		case 0:
			T := zz.NondetInt64("timeout")
			zz.Assume(T >= 0)
			zz.Assume(T <= int64(time.Hour))
			h.Register(names[s], time.Duration(T))
			registered[s], everSeen[s], readyFlag[s], timeout[s], left[s] = true, true, false, T, -1
		case 1:
			h.Unregister(names[s])
			registered[s], everSeen[s], readyFlag[s] = false, true, false
		case 2:
			f := zz.NondetBool("ready")
			h.Ready(names[s], f)
			if registered[s] {
				readyFlag[s], left[s] = f, timeout[s]
			}
		case 3:
			clk.oneTick()
			for k := 0; k < 2; k++ {
				if registered[k] && left[k] > 0 {
					left[k] -= int64(500 * time.Millisecond)
					if left[k] < 0 {
						left[k] = 0
					}
				}
			}
		}
		alive, ready := true, zz.Or(everSeen[0], everSeen[1])
		for k := 0; k < 2; k++ {
			if registered[k] {
				alive = zz.And(alive, left[k] != 0)
				ready = zz.And(ready, left[k] > 0)
			}
			if everSeen[k] {
				ready = zz.And(ready, readyFlag[k])
			}
		}
		zz.Assert(h.IsAlive() == alive, "alive iff no registered subsystem has run out of time")
		zz.Assert(h.IsReady() == ready, "ready iff someone registered, all reported in time and ready, none unregistered")
	}
}

// C30 (timing): a subsystem reports, then e nanoseconds pass during which the 500 ms health ticker
// fires floor(e/500ms) or floor(e/500ms)+1 times (arbitrary phase): e < T-500ms => still alive,
// e > T+500ms => dead.
func Harness_C30_timing() {
	zz.MustCover("(*github.com/honeycombio/refinery/internal/health.Health).ticker")
	zz.Bound("timeout_max_ms", 3000)
	h, clk := verifHealth()
	T := zz.NondetInt64("timeout")
	zz.Assume(T >= 0)
	zz.Assume(T <= int64(3*time.Second))
	e := zz.NondetInt64("elapsed")
	zz.Assume(e >= 0)
	zz.Assume(e <= int64(4*time.Second))
	tickNs := int64(TickerTime)
	n := zz.Choose("ticks", 10)
	zz.Assume(int64(n) >= e/tickNs)
	zz.Assume(int64(n) <= e/tickNs+1)
	h.Register("a", time.Duration(T))
	h.Ready("a", true)
	for i := 0; i < n; i++ {
		clk.oneTick()
	}
	alive := h.IsAlive()
	if e < T-tickNs {
		zz.Assert(alive, "reporting again within timeout minus one tick: never reported dead")
	}
	if e > T+tickNs {
		zz.Assert(!alive, "silent for longer than timeout plus one tick: reported dead")
	}
}
