//go:build verif

package metrics

import (
	zz "github.com/honeycombio/refinery/internal/zzverif"
)

// C33: after any sequence of K operations (Register of any type, Increment, Count, Gauge, Up,
// Down, Store, each on one of 2 names, amounts symbolic) a counter reads the sum of its
// increments, never decreases across an operation, a gauge reads its last value and an up-down
// counter reads ups minus downs.
func Harness_C33_store() {
	zz.MustCover("(*github.com/honeycombio/refinery/metrics.MultiMetrics).Register",
		"(*github.com/honeycombio/refinery/metrics.MultiMetrics).Count",
		"(*github.com/honeycombio/refinery/metrics.MultiMetrics).Get")
	K := 3
	if zz.Thorough() {
		K = 5
	}
	zz.Bound("operations", K)
	zz.Bound("names", 2)
	m := NewMultiMetrics()
	names := [2]string{"a", "b"}
	// each name is used as one kind of metric throughout: 0 counter, 1 gauge, 2 updown
	var kind [2]int
	kind[0] = zz.Choose("kindA", 3)
	kind[1] = zz.Choose("kindB", 3)
	types := [3]MetricType{Counter, Gauge, UpDown}
	var sum [2]uint64
	var last [2]float64
	var haveGauge [2]bool
	var ud [2]int64
	var touched [2]bool
	for i := 0; i < K; i++ {
		n := zz.Choose("name", 2)
		before, okBefore := m.Get(names[n])
		switch zz.Choose("op", 2) {
		case 0:
			m.Register(Metadata{Name: names[n], Type: types[kind[n]]})
			touched[n] = true
		case 1:
			touched[n] = true
			switch kind[n] {
			case 0:
				if zz.NondetBool("useCount") {
					c := zz.NondetInt64("count")
					zz.Assume(c >= 0)
					zz.Assume(c < 1<<40)
					m.Count(names[n], c)
					sum[n] += uint64(c)
				} else {
					m.Increment(names[n])
					sum[n]++
				}
			case 1:
				v := zz.NondetFloat64("gauge")
				zz.Assume(v == v)
				m.Gauge(names[n], v)
				last[n], haveGauge[n] = v, true
			case 2:
				if zz.NondetBool("up") {
					m.Up(names[n])
					ud[n]++
				} else {
					m.Down(names[n])
					ud[n]--
				}
			}
		}
		after, okAfter := m.Get(names[n])
		if kind[n] == 0 {
			if okBefore {
				zz.Assert(okAfter, "a counter that could be read can still be read")
				zz.Assert(after >= before, "a counter never decreases, whatever is registered")
			}
		}
	}
	for n := 0; n < 2; n++ {
		got, ok := m.Get(names[n])
		if !touched[n] {
			continue
		}
		zz.Assert(ok, "a recorded metric can be read back")
		switch kind[n] {
		case 0:
			zz.Assert(got == float64(sum[n]), "counter equals the sum of its increments")
		case 1:
			if haveGauge[n] {
				zz.Assert(got == last[n], "gauge equals its last value")
			}
		case 2:
			zz.Assert(got == float64(ud[n]), "up-down counter equals ups minus downs")
		}
	}
}

// C33 (concurrent first use): two goroutines each register a counter and record on it, the engine
// being free to switch between them at every operation of the metric maps (bounded preemption).
// Whatever the interleaving, the counter ends at the number of recorded increments: a registration
// never discards what another goroutine has already recorded.
// Natively the Go scheduler decides; the racing section is repeated many times so that a losing
// interleaving shows up.
func Harness_C33_concurrent() {
	zz.MustCover("(*github.com/honeycombio/refinery/metrics.MultiMetrics).Register",
		"(*github.com/honeycombio/refinery/metrics.MultiMetrics).Increment")
	zz.Bound("goroutines", 2)
	zz.Bound("preemptions", 3)
	kind := zz.Choose("kind", 2)
	rounds := 1
	if !zz.InEngine() {
		rounds = 3000
	}
	allCounted := true
	for r := 0; r < rounds; r++ {
		m := NewMultiMetrics()
		zz.PreemptAtSync(3)
		done := make(chan struct{}, 2)
		body := func() {
			if kind == 0 {
				m.Register(Metadata{Name: "c", Type: Counter})
				m.Increment("c")
			} else {
				m.Register(Metadata{Name: "c", Type: UpDown})
				m.Up("c")
			}
			done <- struct{}{}
		}
		go body()
		go body()
		<-done
		<-done
		zz.PreemptAtSync(0)
		v, ok := m.Get("c")
		allCounted = allCounted && ok && v == 2
	}
	zz.Assert(allCounted, "what two goroutines record on a metric they both register is all counted")
}
