//go:build verif

package config

import (
	zz "github.com/honeycombio/refinery/internal/zzverif"
)

func verifIn(list []string, s string) bool {
	r := false
	for _, x := range list {
		r = zz.Or(r, x == s)
	}
	return r
}

// C24 (kernel): IsAccepted and GetReplaceKey against the documented table, for every mode,
// AcceptOnlyListedKeys, SendKey, <=2 ReceiveKeys, <=1 ReceiveKeyIDs, client key and key ID
// (all strings of <= 2 bytes, including empty).
func Harness_C24_table() {
	zz.MustCover("(*github.com/honeycombio/refinery/config.AccessKeyConfig).IsAccepted",
		"(*github.com/honeycombio/refinery/config.AccessKeyConfig).GetReplaceKey")
	zz.Bound("key_len_max", 2)
	modes := []string{"none", "all", "nonblank", "listedonly", "missingonly", "unlisted"}
	mode := modes[zz.Choose("mode", len(modes))]
	only := zz.NondetBool("acceptOnlyListed")
	send := zz.NondetString("sendKey", 2)
	nrk := zz.Choose("nReceiveKeys", 3)
	var rks []string
	for i := 0; i < nrk; i++ {
		rks = append(rks, zz.NondetString("receiveKey", 2))
	}
	var ids []string
	if zz.NondetBool("hasKeyID") {
		ids = append(ids, zz.NondetString("receiveKeyID", 1))
	}
	key := zz.NondetString("clientKey", 2)
	keyID := zz.NondetString("clientKeyID", 1)
	a := &AccessKeyConfig{ReceiveKeys: rks, ReceiveKeyIDs: ids, SendKey: send, SendKeyMode: mode, AcceptOnlyListedKeys: only}

	listed := zz.Or(verifIn(rks, key), zz.And(keyID != "", verifIn(ids, keyID)))
	accErr := a.IsAccepted(key, keyID)
	wantAccepted := zz.Or(!only, zz.Or(zz.And(send != "", key == send), listed))
	zz.Assert((accErr == nil) == wantAccepted, "accepted iff AcceptOnlyListedKeys is off or the key (or its ID) is listed or equals SendKey")

	got, err := a.GetReplaceKey(key, keyID)
	want := key
	if send != "" {
		switch mode {
		case "all":
			want = send
		case "nonblank":
			if key != "" {
				want = send
			}
		case "listedonly":
			if listed {
				want = send
			}
		case "missingonly":
			if key == "" {
				want = send
			}
		case "unlisted":
			if zz.And(key != "", !listed) {
				want = send
			}
		}
	}
	zz.Observe("got", got)
	if want == "" {
		zz.Assert(err != nil, "a blank resulting key is refused")
		zz.Assert(got == "", "no key is returned with the error")
	} else {
		zz.Assert(err == nil, "a non-blank resulting key is not refused")
		zz.Assert(got == want, "key sent upstream follows the SendKeyMode table")
	}
}
