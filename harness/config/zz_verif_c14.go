//go:build verif

package config

import (
	zz "github.com/honeycombio/refinery/internal/zzverif"
)

func verifHex(c byte) bool   { return zz.Or(zz.And(c >= '0', c <= '9'), zz.And(c >= 'a', c <= 'f')) }
func verifAlnum(c byte) bool { return zz.Or(zz.And(c >= '0', c <= '9'), zz.And(c >= 'a', c <= 'z')) }

// C14 (key classification): IsLegacyAPIKey against the character-class specification
// for every string of the interesting lengths (31..33, 63..65, and all lengths <= 8); no panic.
func Harness_C14_legacykey() {
	zz.MustCover("github.com/honeycombio/refinery/config.IsLegacyAPIKey")
	lens := []int{0, 1, 2, 3, 5, 6, 8, 31, 32, 33, 63, 64, 65}
	zz.Bound("key_len_max", 65)
	n := lens[zz.Choose("len", len(lens))]
	key := zz.NondetStringN("key", n)
	got := IsLegacyAPIKey(key)
	want := false
	switch n {
	case 32:
		want = true
		for i := 0; i < 32; i++ {
			want = zz.And(want, verifHex(key[i]))
		}
	case 64:
		want = zz.And(key[0] == 'h', key[1] == 'c')
		want = zz.And(want, zz.And(key[2] >= 'a', key[2] <= 'z'))
		want = zz.And(want, zz.And(key[3] == 'i', zz.And(key[4] == 'c', key[5] == '_')))
		for i := 6; i < 64; i++ {
			want = zz.And(want, verifAlnum(key[i]))
		}
	}
	zz.Observe("got", got)
	zz.Assert(got == want, "IsLegacyAPIKey agrees with the documented key shapes")
}

const (
	verifClassicKey = "0123456789abcdef0123456789abcdef"
	verifIngestKey  = "hcaic_0123456789abcdefghijklmnopqrstuvwxyz0123456789abcdefghijkl"
	verifEnvKey     = "hcaik_0123456789abcdefghijklmnopqrstuvwxyz0123456789abcdefghijkl"
)

// C14 (selection): DetermineSamplerKey / GetSamplerConfigForDestName / GetSamplingKeyFieldsForDestName
// select the same sampler, which is the one the statement names, for every environment, dataset,
// prefix and sampler names (strings of <= 2 bytes) and each key class.
func Harness_C14_selection() {
	zz.MustCover("(*github.com/honeycombio/refinery/config.fileConfig).DetermineSamplerKey",
		"(*github.com/honeycombio/refinery/config.fileConfig).GetSamplerConfigForDestName",
		"(*github.com/honeycombio/refinery/config.fileConfig).GetSamplingKeyFieldsForDestName")
	keys := []string{verifClassicKey, verifIngestKey, verifEnvKey, "", "short"}
	kc := zz.Choose("keyClass", len(keys))
	apiKey := keys[kc]
	classic := kc <= 1
	extra := 0
	if zz.Thorough() {
		extra = 1
	}
	zz.Bound("name_len_max", 2+extra)
	env := zz.NondetString("env", 2+extra)
	// the dataset is one byte longer than the prefix so that "dataset starts with prefix." is in reach
	dataset := zz.NondetString("dataset", 2+extra)
	prefix := zz.NondetString("prefix", 1+extra)
	name1 := zz.NondetString("samplerName1", 3)
	hasDefault := zz.NondetBool("hasDefault")
	samplers := map[string]*V2SamplerChoice{
		name1: {DynamicSampler: &DynamicSamplerConfig{SampleRate: 11, FieldList: []string{"f1"}}},
	}
	if hasDefault {
		samplers["__default__"] = &V2SamplerChoice{DynamicSampler: &DynamicSamplerConfig{SampleRate: 99, FieldList: []string{"fd"}}}
	}
	f := &fileConfig{mainConfig: &configContents{General: GeneralConfig{DatasetPrefix: prefix}}, rulesConfig: &V2SamplerConfig{Samplers: samplers}}

	key := f.DetermineSamplerKey(apiKey, env, dataset)
	want := env
	if classic {
		want = dataset
		if prefix != "" {
			want = prefix + "." + dataset
		}
	}
	zz.Assert(key == want, "sampler key: environment for environment keys, (prefixed) dataset for classic keys")

	cfg, tname := f.GetSamplerConfigForDestName(key)
	fields := f.GetSamplingKeyFieldsForDestName(key)
	wantRate := 0
	if key == name1 {
		wantRate = 11
	} else if zz.Or(hasDefault, name1 == "__default__") {
		wantRate = 99
		if name1 == "__default__" {
			wantRate = 11
		}
	}
	gotRate := 0
	if d, ok := cfg.(*DynamicSamplerConfig); ok && d != nil {
		gotRate = int(d.SampleRate)
	}
	zz.Assert(gotRate == wantRate, "decision-time selection: named sampler, else __default__, else none")
	if wantRate == 0 {
		zz.Assert(tname == "not found", "no sampler: reported as not found")
		zz.Assert(len(fields) == 0, "no sampler: no key fields")
	} else {
		zz.Assert(tname == "DynamicSampler", "sampler type name")
		zz.Assert(len(fields) == 1, "ingestion-time selection extracts the selected sampler's fields")
		if len(fields) == 1 {
			zz.Assert((fields[0] == "f1") == (wantRate == 11), "ingestion-time and decision-time selections are the same sampler")
		}
	}
}
