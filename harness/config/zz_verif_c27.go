//go:build verif

package config

import (
	"errors"
	"os"
	"path/filepath"
	"runtime"
	"time"

	zz "github.com/honeycombio/refinery/internal/zzverif"
)

// Engine-side models for the C27 check only: reading and validating files (file I/O, YAML,
// reflection-driven metadata) is outside reach; Reload's decision logic is what is on trial.
// The models follow newFileConfig's documented contract: (nil, err) fatal | (cfg, err) warnings
// only | (cfg, nil) clean, with arbitrary content hashes.
var (
	verifReadFails bool
	verifNextCfg   *fileConfig
	verifNextErr   error
)

//verif:model github.com/honeycombio/refinery/config.newConfigAndRules only=C27
func verifNewConfigAndRules(opts *CmdEnv) ([]configData, []configData, error) {
	if verifReadFails {
		return nil, nil, errors.New("unreadable")
	}
	return nil, nil, nil
}

//verif:model github.com/honeycombio/refinery/config.newFileConfig only=C27
func verifNewFileConfig(opts *CmdEnv, cData, rulesData []configData, currentVersion ...string) (*fileConfig, error) {
	return verifNextCfg, verifNextErr
}

func verifMainYAML(v string, warn bool) string {
	port := map[string]string{"m0": "9000", "m1": "9001", "m2": "9002"}[v]
	y := "General:\n  ConfigurationVersion: 2\nNetwork:\n  ListenAddr: 0.0.0.0:" + port + "\n"
	if warn {
		y += "Collection:\n  CacheCapacity: 10000\n" // deprecated field: a warning, not an error
	}
	return y
}

func verifRulesYAML(v string) string {
	rate := map[string]string{"r0": "1", "r1": "2"}[v]
	return "RulesVersion: 2\nSamplers:\n  __default__:\n    DeterministicSampler:\n      SampleRate: " + rate + "\n"
}

// C27 (decision kernel): two successive reload triggers, each finding the files unreadable,
// rejected by validation, valid with warnings, or valid, with one of three main and two rules
// contents; two registered listeners. Engine: file reading/validation are the models above.
// Native replay (the realiser): real files on disk and the real NewConfig / Reload.
func Harness_C27_reload() {
	zz.MustCover("(*github.com/honeycombio/refinery/config.fileConfig).Reload",
		"(*github.com/honeycombio/refinery/config.fileConfig).RegisterReloadCallback")
	zz.Bound("reloads", 2)
	zz.Bound("listeners", 2)
	var f *fileConfig
	var cfgPath, rulesPath string
	if zz.InEngine() {
		f = &fileConfig{mainConfig: &configContents{}, rulesConfig: &V2SamplerConfig{}, mainHash: "m0", rulesHash: "r0", opts: &CmdEnv{}}
	} else {
		dir, err := os.MkdirTemp("", "verifc27")
		if err != nil {
			panic(err)
		}
		defer os.RemoveAll(dir)
		cfgPath, rulesPath = filepath.Join(dir, "config.yaml"), filepath.Join(dir, "rules.yaml")
		os.WriteFile(cfgPath, []byte(verifMainYAML("m0", false)), 0644)
		os.WriteFile(rulesPath, []byte(verifRulesYAML("r0")), 0644)
		c, err := NewConfig(&CmdEnv{ConfigLocations: []string{cfgPath}, RulesLocations: []string{rulesPath}})
		if err != nil {
			panic(err)
		}
		f = c.(*fileConfig)
	}
	var calls [2]int
	f.RegisterReloadCallback(func(c, r string) { calls[0]++ })
	f.RegisterReloadCallback(func(c, r string) { calls[1]++ })
	cur := "m0/r0"
	for i := 0; i < 2; i++ {
		outcome := zz.Choose("outcome", 4) // 0 unreadable, 1 rejected, 2 valid with warnings, 3 valid
		nm := []string{"m0", "m1", "m2"}[zz.Choose("mainContent", 3)]
		nr := []string{"r0", "r1"}[zz.Choose("rulesContent", 2)]
		content := nm + "/" + nr
		if outcome == 2 {
			content = nm + "w/" + nr
		}
		if zz.InEngine() {
			verifReadFails = outcome == 0
			verifNextCfg, verifNextErr = nil, nil
			switch outcome {
			case 1:
				verifNextErr = errors.New("validation failed")
			case 2:
				verifNextCfg = &fileConfig{mainConfig: &configContents{}, rulesConfig: &V2SamplerConfig{}, mainHash: nm + "w", rulesHash: nr}
				verifNextErr = errors.New("deprecation warning")
			case 3:
				verifNextCfg = &fileConfig{mainConfig: &configContents{}, rulesConfig: &V2SamplerConfig{}, mainHash: nm, rulesHash: nr}
			}
		} else {
			os.WriteFile(cfgPath, []byte(verifMainYAML(nm, outcome == 2)), 0644)
			os.WriteFile(rulesPath, []byte(verifRulesYAML(nr)), 0644)
			switch outcome {
			case 0:
				os.Remove(rulesPath)
			case 1:
				os.WriteFile(rulesPath, []byte("RulesVersion: 2\nSamplers: 7\n"), 0644)
			}
		}
		before := calls
		pm, pr := f.GetHashes()
		f.Reload()
		gm, gr := f.GetHashes()
		stateChanged := gm != pm || gr != pr
		if outcome >= 2 && content != cur {
			zz.Assert(stateChanged, "a changed configuration that startup would accept (warnings allowed) is applied")
			zz.Assert(calls[0] == before[0]+1 && calls[1] == before[1]+1, "each applied change notifies every listener exactly once")
			if stateChanged {
				cur = content
			}
		} else {
			zz.Assert(!stateChanged, "unchanged, rejected or unreadable files leave the running configuration as it was")
			zz.Assert(calls == before, "and notify nobody")
		}
	}
}

// C27 (overlapping triggers): a reload is still running (held inside a listener) when the files
// change again and a second trigger fires on another goroutine. The second trigger is not lost:
// once both have finished the latest files are the running configuration and the listener has
// been told about both changes.
func Harness_C27_overlap() {
	zz.MustCover("(*github.com/honeycombio/refinery/config.fileConfig).Reload")
	zz.Bound("overlapping_reloads", 2)
	var f *fileConfig
	var cfgPath, rulesPath string
	if zz.InEngine() {
		f = &fileConfig{mainConfig: &configContents{}, rulesConfig: &V2SamplerConfig{}, mainHash: "m0", rulesHash: "r0", opts: &CmdEnv{}}
	} else {
		dir, err := os.MkdirTemp("", "verifc27")
		if err != nil {
			panic(err)
		}
		defer os.RemoveAll(dir)
		cfgPath, rulesPath = filepath.Join(dir, "config.yaml"), filepath.Join(dir, "rules.yaml")
		os.WriteFile(cfgPath, []byte(verifMainYAML("m0", false)), 0644)
		os.WriteFile(rulesPath, []byte(verifRulesYAML("r0")), 0644)
		c, err := NewConfig(&CmdEnv{ConfigLocations: []string{cfgPath}, RulesLocations: []string{rulesPath}})
		if err != nil {
			panic(err)
		}
		f = c.(*fileConfig)
	}
	setFiles := func(nm string) {
		if zz.InEngine() {
			verifReadFails = false
			verifNextCfg, verifNextErr = &fileConfig{mainConfig: &configContents{}, rulesConfig: &V2SamplerConfig{}, mainHash: nm, rulesHash: "r0"}, nil
		} else {
			os.WriteFile(cfgPath, []byte(verifMainYAML(nm, false)), 0644)
		}
	}
	entered, release := make(chan struct{}), make(chan struct{})
	notes := 0
	f.RegisterReloadCallback(func(c, r string) {
		notes++
		if notes == 1 {
			entered <- struct{}{}
			<-release
		}
	})
	h0, _ := f.GetHashes()
	setFiles("m1")
	done1, done2 := make(chan struct{}), make(chan struct{})
	go func() { f.Reload(); close(done1) }()
	<-entered // the first reload has applied m1 and is telling its listeners
	h1, _ := f.GetHashes()
	setFiles("m2")
	if zz.NondetBool("secondTriggerWhileFirstRuns") {
		go func() { f.Reload(); close(done2) }()
		// let the second trigger run as far as it can while the first is still in progress
		runtime.Gosched()
		if !zz.InEngine() {
			time.Sleep(100 * time.Millisecond)
		}
		close(release)
		<-done1
	} else {
		close(release)
		<-done1
		go func() { f.Reload(); close(done2) }()
	}
	<-done2
	h2, _ := f.GetHashes()
	zz.Assert(h1 != h0, "the first change is applied")
	zz.Assert(h2 != h1 && h2 != h0, "a trigger that arrives while a reload is running is not lost: the latest files end up applied")
	zz.Assert(notes == 2, "listeners hear about both changes")
}
