//go:build verif

package config

import (
	zz "github.com/honeycombio/refinery/internal/zzverif"
)

// C28 (key field derivation): GetKeyFields for every list of 0..2 field names of 0..6 arbitrary
// bytes (the validator accepts any strings, the empty one included): no panic; every name is
// classified once: root.-prefixed names lose the prefix and are root-only, ?.-prefixed names are
// dropped, the rest are span fields.
func Harness_C28_keyfields() {
	zz.MustCover("github.com/honeycombio/refinery/config.GetKeyFields")
	zz.Bound("names", 2)
	zz.Bound("name_len", 6)
	n := zz.Choose("names", 3)
	var fields []string
	for i := 0; i < n; i++ {
		l := []int{0, 1, 2, 5, 6}[zz.Choose("len", 5)]
		fields = append(fields, zz.NondetStringN("name", l))
	}
	all, nonRoot := GetKeyFields(fields)
	zz.Observe("all", len(all))
	zz.Observe("nonRoot", len(nonRoot))
	wantNonRoot := 0
	for _, f := range fields {
		isRoot := len(f) >= 5 && f[:5] == "root."
		isComputed := len(f) >= 2 && f[:2] == "?."
		if !isRoot && !isComputed {
			wantNonRoot++
		}
	}
	zz.Assert(len(nonRoot) == wantNonRoot, "exactly the names without a root. or ?. prefix are span fields")
	zz.Assert(len(all) >= len(nonRoot), "the span fields are among all key fields")
}
