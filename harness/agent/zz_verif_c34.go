//go:build verif

package agent

import (
	"context"
	"errors"
	"time"

	"github.com/jonboulle/clockwork"
	"github.com/open-telemetry/opamp-go/client"
	"github.com/open-telemetry/opamp-go/client/types"
	"github.com/open-telemetry/opamp-go/protobufs"
	"go.opentelemetry.io/collector/pdata/pmetric"

	zz "github.com/honeycombio/refinery/internal/zzverif"
	"github.com/honeycombio/refinery/logger"
)

// ---- models used by the engine only (pdata assembly and JSON marshalling are outside reach):
// the report is "the list of (signal, value) pairs handed to addOTLPSum". Natively the real
// code runs and the harness decodes the JSON report instead.

type verifDP struct {
	signal usageSignal
	value  int64
}

var verifReport []verifDP

//verif:model github.com/honeycombio/refinery/agent.newOTLPMetrics
func verifNewOTLPMetrics(serviceName, version, hostname string) *otlpMetrics {
	verifReport = nil
	return &otlpMetrics{}
}

//verif:model (*github.com/honeycombio/refinery/agent.otlpMetrics).addOTLPSum
func verifAddOTLPSum(om *otlpMetrics, timestamp time.Time, value float64, signal usageSignal) error {
	if _, ok := signalToMetric[signal]; !ok {
		return errNoData
	}
	intVal, err := convertFloat64ToInt64(value)
	if err != nil {
		return err
	}
	verifReport = append(verifReport, verifDP{signal, intVal})
	return nil
}

//verif:model (*go.opentelemetry.io/collector/pdata/pmetric.JSONMarshaler).MarshalMetrics
func verifMarshalMetrics(m *pmetric.JSONMarshaler, md pmetric.Metrics) ([]byte, error) {
	return []byte{1}, nil
}

// reportContents: what a report carries, per signal (0 traces, 1 logs).
func verifReportContents(data []byte) (vals [2]int64, nonNegative bool) {
	nonNegative = true
	if zz.InEngine() {
		for _, dp := range verifReport {
			if dp.value < 0 {
				nonNegative = false
			}
			switch dp.signal {
			case signal_traces:
				vals[0] += dp.value
			case signal_logs:
				vals[1] += dp.value
			}
		}
		return
	}
	um := &pmetric.JSONUnmarshaler{}
	md, err := um.UnmarshalMetrics(data)
	if err != nil {
		panic(err)
	}
	for i := 0; i < md.ResourceMetrics().Len(); i++ {
		sms := md.ResourceMetrics().At(i).ScopeMetrics()
		for j := 0; j < sms.Len(); j++ {
			ms := sms.At(j).Metrics()
			for k := 0; k < ms.Len(); k++ {
				dps := ms.At(k).Sum().DataPoints()
				for l := 0; l < dps.Len(); l++ {
					dp := dps.At(l)
					if dp.IntValue() < 0 {
						nonNegative = false
					}
					sig, _ := dp.Attributes().Get("signal")
					switch sig.Str() {
					case "traces":
						vals[0] += dp.IntValue()
					case "logs":
						vals[1] += dp.IntValue()
					}
				}
			}
		}
	}
	return
}

// C34: K rounds of (cumulative counters grow by arbitrary non-negative integer amounts, a report is
// generated, the send succeeds or fails). Invariant after every round, per signal:
//   growth = delivered by successful sends + still waiting (current + last data points),
// and no report carries a negative value.
func Harness_C34_ledger() {
	zz.MustCover("(*github.com/honeycombio/refinery/agent.usageTracker).Add",
		"(*github.com/honeycombio/refinery/agent.usageTracker).NewReport",
		"(*github.com/honeycombio/refinery/agent.usageTracker).completeSend")
	zz.ExactIntFloats()
	K := 3
	if zz.Thorough() {
		K = 4
	}
	zz.Bound("rounds", K)
	zz.Bound("signals", 2)
	zz.Bound("counter_bits", 40)
	ur := newUsageTracker()
	sigs := [2]usageSignal{signal_traces, signal_logs}
	var cum, delivered [2]int64
	for r := 0; r < K; r++ {
		for s := 0; s < 2; s++ {
			g := zz.NondetInt64("growth")
			zz.Assume(g >= 0)
			zz.Assume(g < 1<<40)
			cum[s] += g
			ur.Add(sigs[s], float64(cum[s]))
		}
		data, err := ur.NewReport("refinery", "v", "host", zz.MonoTime(0))
		if err != nil {
			continue
		}
		vals, nonNeg := verifReportContents(data)
		zz.Assert(nonNeg, "a usage report never carries a negative value")
		if zz.NondetBool("sendSucceeds") {
			ur.completeSend()
			delivered[0] += vals[0]
			delivered[1] += vals[1]
		}
		for s := 0; s < 2; s++ {
			waiting := int64(ur.currentDataPoints[sigs[s]]) + int64(ur.lastDataPoints[sigs[s]])
			zz.Assert(cum[s] == delivered[s]+waiting, "counter growth = usage delivered by successful sends + usage still waiting to be sent")
		}
	}
}

type verifOpamp struct {
	client.OpAMPClient
	delivered [2]int64
	calls     int
}

// SendCustomMessage: the environment accepts the message (delivered once the returned channel
// fires), says another message is still pending (the channel fires when that one has gone out),
// or fails.
func (c *verifOpamp) SendCustomMessage(m *protobufs.CustomMessage) (chan struct{}, error) {
	c.calls++
	ch := make(chan struct{})
	close(ch)
	switch zz.Choose("sendOutcome", 3) {
	case 0:
		vals, _ := verifReportContents(m.Data)
		c.delivered[0] += vals[0]
		c.delivered[1] += vals[1]
		return ch, nil
	case 1:
		return ch, types.ErrCustomMessagePending
	}
	return nil, errVerifSend
}

var errVerifSend = errors.New("send failed")

// C34 (send path): K rounds of counter growth followed by the agent's real sendUsageReport against an
// OpAMP client that accepts, reports "another message pending" (once or on the retry too) or fails:
// after every round, per signal, growth = usage in messages the client accepted + usage still
// waiting in the tracker. Nothing is cleared unless its message was accepted.
func Harness_C34_send() {
	zz.MustCover("(*github.com/honeycombio/refinery/agent.Agent).sendUsageReport",
		"(*github.com/honeycombio/refinery/agent.usageTracker).completeSend")
	zz.ExactIntFloats()
	K := 2
	if zz.Thorough() {
		K = 3
	}
	zz.Bound("rounds", K)
	zz.Bound("counter_bits", 40)
	oc := &verifOpamp{}
	a := &Agent{clock: clockwork.NewFakeClock(), agentType: "refinery", agentVersion: "v", hostname: "host", opampClient: oc,
		logger: Logger{Logger: &logger.NullLogger{}}, ctx: context.Background(), usageTracker: newUsageTracker()}
	sigs := [2]usageSignal{signal_traces, signal_logs}
	var cum [2]int64
	for r := 0; r < K; r++ {
		for s := 0; s < 2; s++ {
			g := zz.NondetInt64("growth")
			zz.Assume(g >= 0)
			zz.Assume(g < 1<<40)
			cum[s] += g
			a.usageTracker.Add(sigs[s], float64(cum[s]))
		}
		before := oc.calls
		err := a.sendUsageReport()
		zz.Observe("sendError", err != nil)
		zz.Assert(oc.calls-before <= 2, "at most one retry per report")
		for s := 0; s < 2; s++ {
			waiting := int64(a.usageTracker.currentDataPoints[sigs[s]]) + int64(a.usageTracker.lastDataPoints[sigs[s]])
			zz.Assert(cum[s] == oc.delivered[s]+waiting, "counter growth = usage in accepted messages + usage still waiting to be sent")
		}
	}
}
