//go:build verif

package collect

import (
	"github.com/honeycombio/refinery/config"
	zz "github.com/honeycombio/refinery/internal/zzverif"
	"github.com/honeycombio/refinery/types"
)

func verifSpan(cfg config.Config, rate uint) *types.Span {
	ev := &types.Event{APIKey: "k", Dataset: "d", Environment: "env", SampleRate: rate, Data: types.NewPayload(cfg, map[string]any{"f": int64(1)})}
	return &types.Span{Event: ev, TraceID: "A"}
}

// C04 kernel: the rate merge over all client rates in [0,2^31) and trace rates in [1,2^31).
func Harness_C04_merge() {
	zz.MustCover("github.com/honeycombio/refinery/collect.mergeTraceAndSpanSampleRates")
	zz.Bound("client_rate_bits", 31)
	zz.Bound("trace_rate_bits", 31)
	client := zz.NondetUint("client")
	trate := zz.NondetUint("traceRate")
	dry := zz.NondetBool("dry")
	zz.Assume(client < 1<<31)
	zz.Assume(trate >= 1)
	zz.Assume(trate < 1<<31)
	cfg := &config.MockConfig{}
	sp := verifSpan(cfg, client)
	mergeTraceAndSpanSampleRates(sp, trate, dry)
	eff := client
	if eff < 1 {
		eff = 1
	}
	want := eff * trate
	zz.Observe("SampleRate", sp.SampleRate)
	if !dry {
		zz.Assert(sp.SampleRate == want, "final rate = max(client,1)*trace")
		zz.Assert(sp.SampleRate >= trate, "final rate at least the trace rate")
		zz.Assert(sp.Data.Get(types.MetaRefineryFinalSampleRate) == any(int64(want)), "meta.refinery.final_sample_rate records the product")
	} else {
		zz.Assert(sp.SampleRate == eff, "dry run leaves the client rate (0 == 1)")
	}
	orig := sp.Data.Get(types.MetaRefineryOriginalSampleRate)
	if client != 0 {
		zz.Assert(orig == any(int64(client)), "nonzero client rate recorded as original_sample_rate")
	} else {
		zz.Assert(orig == nil, "no original_sample_rate when the client sent none")
	}
}

type verifStressRel struct {
	MockStressReliever
	rate uint
	keep bool
}

func (s *verifStressRel) GetSampleRate(string) (uint, bool, string) { return s.rate, s.keep, "stress" }

// C04 (stress path): ProcessSpanImmediately on (a) a trace first seen under stress: the stress rate;
// (b) a trace already decided by the trace sampler at another rate: the rate recorded with that decision.
func Harness_C04_C16_stress_rates() {
	zz.MustCover("(*github.com/honeycombio/refinery/collect.InMemCollector).ProcessSpanImmediately")
	cfg := &config.MockConfig{GetTracesConfigVal: config.TracesConfig{SendDelay: config.Duration(2e9), TraceTimeout: config.Duration(60e9), SendTicker: config.Duration(1e8)}}
	c := verifNewCW(cfg, 10)
	sr := &verifStressRel{rate: zz.NondetUint("stressRate"), keep: zz.NondetBool("stressKeep")}
	zz.Assume(sr.rate >= 1)
	zz.Assume(sr.rate < 1<<31)
	c.i.StressRelief = sr
	r1 := zz.NondetUint("samplerRate")
	zz.Assume(r1 >= 1)
	zz.Assume(r1 < 1<<31)
	keep1 := zz.NondetBool("samplerKeep")
	c.samp.rate["A"], c.samp.keep["A"] = r1, keep1
	c.setNow(1000)
	c.start()
	// trace A decided by the regular sampler
	zz.Assert(c.i.AddSpan(c.span("A", true, 1)) == nil, "span admitted")
	c.barrier()
	c.tickAt(1000 + 3e9)
	zz.Assert(c.samp.calls["A"] == 1, "decided")
	// stress relief on: another span of A, and the first span of B
	clientA, clientB := verifRate("clientA"), verifRate("clientB")
	spA, spB := c.span("A", false, clientA), c.span("B", false, clientB)
	before := len(c.tx.events)
	_, keptA := c.i.ProcessSpanImmediately(spA)
	_, keptB := c.i.ProcessSpanImmediately(spB)
	effA := zz.IteUint(clientA < 1, 1, clientA)
	effB := zz.IteUint(clientB < 1, 1, clientB)
	zz.Assert(keptA == keep1, "[C16,C01] a trace already decided keeps its decision under stress relief")
	zz.Assert(keptB == sr.keep, "[C16] a trace first seen under stress follows the stress rule")
	if keptA {
		zz.Assert(spA.SampleRate == effA*r1, "[C04] span of an already-decided trace uses the rate recorded with that decision, not the stress rate")
	}
	if keptB {
		zz.Assert(spB.SampleRate == effB*sr.rate, "[C04] span of a trace first seen under stress uses the stress-relief rate")
	}
	n := 0
	if keptA {
		n++
	}
	if keptB {
		n++
	}
	zz.Assert(len(c.tx.events)-before == n, "[C16] exactly the kept spans are forwarded")
}
