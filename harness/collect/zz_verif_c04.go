//go:build verif

package collect

import (
	"github.com/honeycombio/refinery/config"
	zz "github.com/honeycombio/refinery/internal/zzverif"
	"github.com/honeycombio/refinery/types"
)

func verifSpan(cfg config.Config, rate uint) *types.Span {
	ev := &types.Event{APIKey: "k", Dataset: "d", Environment: "env", SampleRate: rate, Data: types.NewPayload(cfg, map[string]any{"f": int64(1)})}
	return &types.Span{Event: ev, TraceID: "A"}
}

// C04 kernel: the rate merge over all client rates in [0,2^31) and trace rates in [1,2^31).
func Harness_C04_merge() {
	zz.MustCover("github.com/honeycombio/refinery/collect.mergeTraceAndSpanSampleRates")
	zz.Bound("client_rate_bits", 31)
	zz.Bound("trace_rate_bits", 31)
	client := zz.NondetUint("client")
	trate := zz.NondetUint("traceRate")
	dry := zz.NondetBool("dry")
	zz.Assume(client < 1<<31)
	zz.Assume(trate >= 1)
	zz.Assume(trate < 1<<31)
	cfg := &config.MockConfig{}
	sp := verifSpan(cfg, client)
	mergeTraceAndSpanSampleRates(sp, trate, dry)
	eff := client
	if eff < 1 {
		eff = 1
	}
	want := eff * trate
	zz.Observe("SampleRate", sp.SampleRate)
	if !dry {
		zz.Assert(sp.SampleRate == want, "final rate = max(client,1)*trace")
		zz.Assert(sp.SampleRate >= trate, "final rate at least the trace rate")
		zz.Assert(sp.Data.Get(types.MetaRefineryFinalSampleRate) == any(int64(want)), "meta.refinery.final_sample_rate records the product")
	} else {
		zz.Assert(sp.SampleRate == eff, "dry run leaves the client rate (0 == 1)")
	}
	orig := sp.Data.Get(types.MetaRefineryOriginalSampleRate)
	if client != 0 {
		zz.Assert(orig == any(int64(client)), "nonzero client rate recorded as original_sample_rate")
	} else {
		zz.Assert(orig == nil, "no original_sample_rate when the client sent none")
	}
}
