//go:build verif

package collect

import (
	"math"

	"github.com/honeycombio/refinery/config"
	zz "github.com/honeycombio/refinery/internal/zzverif"
	"github.com/honeycombio/refinery/logger"
)

func verifStress(rate uint64) *StressRelief {
	cfg := &config.MockConfig{StressRelief: config.StressReliefConfig{Mode: "monitor", ActivationLevel: 90, DeactivationLevel: 75, SamplingRate: rate}}
	s := &StressRelief{Config: cfg, Logger: &logger.NullLogger{}}
	s.UpdateFromConfig()
	return s
}

// C10 (stress relief): for every sampling rate in [0,2^64-1] and every trace ID (wyhash as UF).
func Harness_C10_stress() {
	zz.MustCover("(*github.com/honeycombio/refinery/collect.StressRelief).UpdateFromConfig",
		"(*github.com/honeycombio/refinery/collect.StressRelief).GetSampleRate")
	zz.Bound("trace_id_len", 2)
	n := zz.NondetUint64("rateN")
	m := zz.NondetUint64("rateM")
	zz.Assume(m <= n)
	zz.SearchOnReplay("traceID") // the hash of the ID is an uninterpreted function in the engine
	id := zz.NondetStringN("traceID", 2)
	sN := verifStress(n)
	sM := verifStress(m)
	sN2 := verifStress(n)
	sN2.stressed = true
	sN2.reason = "x"
	rN, keepN, _ := sN.GetSampleRate(id)
	_, keepM, _ := sM.GetSampleRate(id)
	_, keepN2, _ := sN2.GetSampleRate(id)
	zz.Assert(keepN == keepN2, "decision depends only on (trace ID, rate)")
	zz.Assert(zz.Implies(keepN, keepM), "nested: kept at N implies kept at every M <= N")
	if n <= 1 {
		zz.Assert(keepN, "rate <= 1 keeps everything")
		zz.Assert(rN == 1, "rate <= 1 reports 1")
	} else {
		zz.Assert(rN == uint(n), "reported rate is the configured rate")
		// stated on the observable decision only (no reference to how the threshold is stored)
		zz.Assert(keepN == (zz.Wyhash(id, hashSeed) <= math.MaxUint64/n), "keep iff hash <= floor(MAX/N)")
	}
}
