//go:build verif

package collect

import (
	"runtime"
	"sync"
	"time"

	"go.opentelemetry.io/otel/trace/noop"

	"github.com/honeycombio/refinery/config"
	zz "github.com/honeycombio/refinery/internal/zzverif"
	"github.com/honeycombio/refinery/logger"
	"github.com/honeycombio/refinery/types"
)

// MockConfig.GetAddCountsToRoot returns the AddSpanCountToRoot field (a slip in the test double, not
// in the product); this wrapper makes the double answer with the field the name says.
type verifCfgCounts struct{ *config.MockConfig }

func (c *verifCfgCounts) GetAddCountsToRoot() bool {
	c.Mux.RLock()
	defer c.Mux.RUnlock()
	return c.AddCountsToRoot
}

type verifHealthRec struct{}

func (verifHealthRec) Register(string, time.Duration) {}
func (verifHealthRec) Unregister(string)              {}
func (verifHealthRec) Ready(string, bool)             {}

// transmission safe to read while the collector's own sender goroutine is running
type verifSyncTx struct {
	mu     sync.Mutex
	events []*types.Event
}

func (r *verifSyncTx) EnqueueEvent(ev *types.Event) {
	r.mu.Lock()
	r.events = append(r.events, ev)
	r.mu.Unlock()
}
func (r *verifSyncTx) EnqueueSpan(sp *types.Span) { r.EnqueueEvent(sp.Event) }
func (r *verifSyncTx) n() int {
	r.mu.Lock()
	defer r.mu.Unlock()
	return len(r.events)
}
func (r *verifSyncTx) waitFor(n int) {
	for r.n() < n {
		runtime.Gosched()
	}
}

// C06: the collector is brought up by the REAL Start() (workers, sender and monitor goroutines
// park in their loops). A trace is decided and forwarded, the reloadable decoration options are
// then changed (as a reload does), a second trace is decided and forwarded, and a late root
// arrives. Every forwarded span must be decorated according to the options in force when it
// was forwarded.
func Harness_C06_C04_decoration() {
	zz.MustCover("(*github.com/honeycombio/refinery/collect.InMemCollector).Start",
		"(*github.com/honeycombio/refinery/collect.InMemCollector).sendTraces",
		"(*github.com/honeycombio/refinery/collect.InMemCollector).dealWithSentTrace",
		"(*github.com/honeycombio/refinery/collect.InMemCollector).addAdditionalAttributes")
	var opt [2]struct{ host, reason, spanCount, counts bool }
	for k := 0; k < 2; k++ {
		opt[k].host = zz.NondetBool("addHostMetadata")
		opt[k].reason = zz.NondetBool("addRuleReason")
		opt[k].spanCount = zz.NondetBool("addSpanCountToRoot")
		opt[k].counts = zz.NondetBool("addCountsToRoot")
	}
	cfg := &verifCfgCounts{MockConfig: &config.MockConfig{
		GetTracesConfigVal:     config.TracesConfig{SendDelay: config.Duration(2 * time.Second), TraceTimeout: config.Duration(60 * time.Second), SendTicker: config.Duration(50 * time.Millisecond)},
		GetCollectionConfigVal: config.CollectionConfig{WorkerCount: 1, IncomingQueueSize: 16, PeerQueueSize: 16},
		SampleCache:            config.SampleCacheConfig{KeptSize: 10, DroppedSize: 100, SizeCheckInterval: config.Duration(time.Hour)},
		AdditionalAttributes:   map[string]string{"attr1": "v1"},
	}}
	set := func(k int) {
		cfg.Mux.Lock()
		cfg.AddHostMetadataToTrace, cfg.AddRuleReasonToTrace, cfg.AddSpanCountToRoot, cfg.AddCountsToRoot = opt[k].host, opt[k].reason, opt[k].spanCount, opt[k].counts
		if k == 1 {
			cfg.AdditionalAttributes = map[string]string{"attr2": "v2"}
		}
		cfg.Mux.Unlock()
	}
	set(0)
	clk := &verifClock{splitMonitor: true}
	clk.now = zz.MonoTime(1000)
	tx := &verifSyncTx{}
	i := &InMemCollector{Config: cfg, Logger: &logger.NullLogger{}, Clock: clk, Transmission: tx, Metrics: &verifMetrics{}, Tracer: noop.Tracer{},
		Health: verifHealthRec{}, StressRelief: &MockStressReliever{}}
	zz.Assert(i.Start() == nil, "collector starts")
	samp := &verifSampler{rate: map[string]uint{"A": 2, "B": 3}, keep: map[string]bool{"A": true, "B": true}, calls: map[string]int{}}
	w := i.workers[0]
	w.datasetSamplers["env"] = samp
	c := &verifCW{i: i, w: w, cfg: cfg.MockConfig, clk: clk, samp: samp}
	for clk.tick == nil {
		runtime.Gosched()
	}
	c.barrier()
	// the child of each trace is an ordinary span, a span event or a span link: events and links
	// count as descendants (meta.event_count, and meta.span_count when only AddSpanCountToRoot is
	// on) but not as spans when AddCountsToRoot breaks the counts down
	childKind := zz.Choose("childKind", 3)
	mk := func(tid string, root bool) *types.Span {
		ev := &types.Event{APIKey: "k", Dataset: "d", Environment: "env", SampleRate: 1, Data: types.NewPayload(cfg, map[string]any{"f": int64(1)})}
		if !root {
			ev.Data.MetaAnnotationType = []string{"", "span_event", "link"}[childKind]
		}
		return &types.Span{Event: ev, TraceID: tid, IsRoot: root}
	}
	nonSpans := int64(0)
	if childKind != 0 {
		nonSpans = 1
	}
	check := func(sp *types.Span, k int, isRoot bool, wantCount int64, late bool) {
		hostSet := sp.Data.Get(types.MetaRefineryLocalHostname) != nil
		if k == 1 && opt[1].host != opt[0].host {
			// recorded finding: the option is read once, in Start(); see known_findings.json
			zz.AssertKnown("C06-hostname-option-read-only-at-start", hostSet == opt[k].host, "[C06] hostname present iff AddHostMetadataToTrace is in force when the span is forwarded (after a reload)")
		} else {
			zz.Assert(hostSet == opt[k].host, "[C06] hostname present iff AddHostMetadataToTrace is in force when the span is forwarded")
		}
		zz.Assert((sp.Data.Get(types.MetaRefineryReason) != nil) == opt[k].reason, "[C06] decision reason present iff AddRuleReasonToTrace is in force")
		if k == 0 {
			zz.Assert(sp.Data.Get("attr1") == any("v1"), "[C06] configured additional attributes present")
		} else {
			zz.Assert(sp.Data.Get("attr2") == any("v2"), "[C06] additional attributes configured by the reload present on later spans")
		}
		if isRoot {
			sc := sp.Data.Get(types.MetaSpanCount)
			if v, ok := sc.(int64); ok {
				zz.Observe("spanCount", v)
			} else {
				zz.Observe("spanCountMissing", wantCount)
			}
			if opt[k].counts {
				zz.Assert(sc == any(wantCount-nonSpans), "[C06] root carries the number of spans as of the decision (or of its own late arrival)")
				zz.Assert(sp.Data.Get(types.MetaEventCount) == any(wantCount), "[C06] root carries the event count too when AddCountsToRoot is in force")
				ne, nl := int64(0), int64(0)
				if childKind == 1 {
					ne = 1
				}
				if childKind == 2 {
					nl = 1
				}
				// a zero count reads back as absent
				cnt := func(v any) int64 {
					if n, ok := v.(int64); ok {
						return n
					}
					return 0
				}
				zz.Assert(zz.And(cnt(sp.Data.Get(types.MetaSpanEventCount)) == ne, cnt(sp.Data.Get(types.MetaSpanLinkCount)) == nl), "[C06] span events and links are counted by kind")
			} else if opt[k].spanCount {
				zz.Assert(sc == any(wantCount), "[C06] root carries the span count as of the decision (or of its own late arrival)")
			} else {
				zz.Assert(sc == nil, "[C06] no counts on the root when neither count option is in force")
			}
		}
	}
	// trace A: child + root, decided at the first tick after the root's send delay
	a1, a2 := mk("A", false), mk("A", true)
	zz.Assert(i.AddSpan(a1) == nil, "span admitted")
	zz.Assert(i.AddSpan(a2) == nil, "span admitted")
	c.barrier()
	c.tickAt(1000 + int64(3*time.Second))
	tx.waitFor(2)
	check(a1, 0, false, 0, false)
	check(a2, 0, true, 2, false)
	// reload: the options change
	set(1)
	// trace B under the new options
	b1, b2 := mk("B", false), mk("B", true)
	zz.Assert(i.AddSpan(b1) == nil, "span admitted")
	zz.Assert(i.AddSpan(b2) == nil, "span admitted")
	c.barrier()
	c.tickAt(1000 + int64(10*time.Second))
	tx.waitFor(4)
	check(b1, 1, false, 0, false)
	check(b2, 1, true, 2, false)
	// a late root for A, after the reload
	a3 := mk("A", true)
	zz.Assert(i.AddSpan(a3) == nil, "span admitted")
	c.barrier()
	tx.waitFor(5)
	check(a3, 1, true, 3, true)
	zz.Assert(a3.SampleRate == 2, "[C04] late span uses the rate recorded with the trace's decision")
}
