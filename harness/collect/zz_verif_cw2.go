//go:build verif

package collect

import (
	"sync"
	"time"

	"github.com/honeycombio/refinery/collect/cache"
	"github.com/honeycombio/refinery/sample"
	"github.com/honeycombio/refinery/config"
	zz "github.com/honeycombio/refinery/internal/zzverif"
)

// C03 (limits): three traces, one span each (child or root) at arbitrary instants, then two ticks.
// SpanLimit in {0,1}... MaxExpiredTraces in {0,1,2}: at every tick exactly the min(Max, #expired)
// earliest deadlines are decided, and the send reason follows the documented priority.
func Harness_C02_C03_limits() {
	zz.MustCover("(*github.com/honeycombio/refinery/collect/cache.DefaultInMemCache).TakeExpiredTraces",
		"(*github.com/honeycombio/refinery/collect.CollectorWorker).sendExpiredTracesInCache")
	zz.Bound("traces", 3)
	zz.Bound("ticks", 2)
	maxExp := zz.Choose("maxExpiredTraces", 3)
	spanLimit := zz.Choose("spanLimit", 2)
	cfg := &config.MockConfig{
		GetTracesConfigVal: config.TracesConfig{SendDelay: config.Duration(2 * time.Second), TraceTimeout: config.Duration(60 * time.Second), SendTicker: config.Duration(100 * time.Millisecond),
			MaxExpiredTraces: uint(maxExp), SpanLimit: uint(spanLimit)},
		DryRun: true, // every decided trace is "sent", so the send-reason counters count decisions
	}
	c := verifNewCW(cfg, 10)
	tids := [3]string{"A", "B", "C"}
	for _, t := range tids {
		c.samp.rate[t] = 1
		c.samp.keep[t] = true
	}
	now := verifDur("t0")
	c.setNow(now)
	c.start()
	var deadline [3]int64
	var root [3]bool
	var nspans [3]int
	for t := 0; t < 3; t++ {
		now += verifDur("dt")
		c.setNow(now)
		root[t] = zz.And(zz.Or(t < 2, zz.Thorough()), zz.NondetBool("isRoot")) // quick tier: trace C is never a root
		zz.Assert(c.i.AddSpan(c.span(tids[t], root[t], 1)) == nil, "span admitted")
		c.barrier()
		nspans[t] = 1
		deadline[t] = now + int64(60*time.Second)
		if root[t] {
			deadline[t] = now + int64(2*time.Second)
		}
	}
	// optionally a second span for trace A - a child, or (if A has no root yet) its root -, which
	// exceeds SpanLimit 1: the trace is then due at once even when the span is the root
	if zz.NondetBool("extraSpanForA") {
		now += verifDur("dt")
		c.setNow(now)
		extraRoot := zz.And(!root[0], zz.NondetBool("extraSpanIsRoot"))
		zz.Assert(c.i.AddSpan(c.span("A", extraRoot, 1)) == nil, "span admitted")
		c.barrier()
		nspans[0] = 2
		if extraRoot {
			root[0] = true
			deadline[0] = zz.IteInt64(now+int64(2*time.Second) < deadline[0], now+int64(2*time.Second), deadline[0])
		}
		if spanLimit > 0 {
			deadline[0] = zz.IteInt64(now < deadline[0], now, deadline[0])
		}
	}
	zz.Assume(deadline[0] != deadline[1])
	zz.Assume(deadline[0] != deadline[2])
	zz.Assume(deadline[1] != deadline[2])
	var decided [3]bool
	for tick := 0; tick < 2; tick++ {
		now += verifDur("dt")
		c.tickAt(now)
		// expected: among undecided traces with deadline <= now, the maxExp earliest (all if 0)
		for t := 0; t < 3; t++ {
			if decided[t] {
				continue
			}
			earlier := 0 // expired undecided traces with an earlier deadline (counted without forking)
			for u := 0; u < 3; u++ {
				if u != t && !decided[u] {
					earlier += zz.IteInt(zz.And(deadline[u] <= now, deadline[u] < deadline[t]), 1, 0)
				}
			}
			want := zz.And(deadline[t] <= now, zz.Or(maxExp == 0, earlier < maxExp))
			got := c.samp.calls[tids[t]] >= 1
			zz.Assert(got == want, "[C03] a tick decides exactly the (at most MaxExpiredTraces) earliest expired deadlines")
			if got {
				reason := TraceSendExpired
				if root[t] {
					reason = TraceSendGotRoot
				} else if spanLimit > 0 && nspans[t] > spanLimit {
					reason = TraceSendSpanLimit
				}
				zz.Assert(c.met.counts[reason] >= 1, "[C03] send reason: got_root if a root is present, else span_limit, else expired")
			}
		}
		for t := 0; t < 3; t++ {
			decided[t] = c.samp.calls[tids[t]] >= 1
		}
	}
	nd := 0
	for t := 0; t < 3; t++ {
		if decided[t] {
			nd++
		}
	}
	total := c.met.counts[TraceSendExpired] + c.met.counts[TraceSendGotRoot] + c.met.counts[TraceSendSpanLimit]
	zz.Assert(total == nd, "[C03] one send reason per decided trace")
	// while Refinery runs every accepted span's trace is eventually decided: three more ticks
	// (enough for MaxExpiredTraces = 1) far beyond every deadline
	for k := 0; k < 3; k++ {
		now += 1 << 41
		c.tickAt(now)
	}
	for t := 0; t < 3; t++ {
		zz.Assert(c.samp.calls[tids[t]] == 1, "[C02,C01] every buffered trace is eventually decided, exactly once")
	}
	zz.Assert(c.w.cache.GetCacheEntryCount() == 0, "[C02] no trace is left in the buffer")
}

// C07/C01/C02: memory-pressure ejection through the worker's real sendEarly channel (the message
// checkAlloc sends): up to 3 buffered traces with symbolic data sizes and impacts, symbolic share.
func Harness_C07_eject() {
	zz.MustCover("(*github.com/honeycombio/refinery/collect.CollectorWorker).sendTracesEarly",
		"(*github.com/honeycombio/refinery/collect/cache.DefaultInMemCache).RemoveTraces",
		"(*github.com/honeycombio/refinery/collect.CollectorWorker).makeDecision")
	zz.Bound("traces", 3)
	dry := zz.NondetBool("dryRun")
	cfg := &config.MockConfig{
		GetTracesConfigVal: config.TracesConfig{SendDelay: config.Duration(2 * time.Second), TraceTimeout: config.Duration(60 * time.Second), SendTicker: config.Duration(100 * time.Millisecond)},
		DryRun:             dry,
	}
	c := verifNewCW(cfg, 10)
	n := 1 + zz.Choose("nTraces", 3)
	tids := [3]string{"A", "B", "C"}
	now := verifDur("t0")
	c.setNow(now)
	c.start()
	var size, impact [3]int
	var recs []verifSpanRec
	for t := 0; t < n; t++ {
		c.samp.rate[tids[t]] = 1
		c.samp.keep[tids[t]] = zz.NondetBool("samplerKeep")
		size[t] = zz.NondetInt("dataSize")
		zz.Assume(size[t] >= 1)
		zz.Assume(size[t] < 1<<20)
		impact[t] = zz.NondetInt("impact")
		zz.Assume(impact[t] >= size[t])
		zz.Assume(impact[t] < 1<<24)
		sp := c.span(tids[t], zz.NondetBool("isRoot"), 1)
		sp.Event.VerifSetDataSize(size[t])
		zz.Assert(c.i.AddSpan(sp) == nil, "span admitted")
		c.barrier()
		recs = append(recs, verifSpanRec{sp: sp, trace: t, client: 1})
	}
	for t := 0; t < n; t++ {
		c.w.cache.Get(tids[t]).VerifSetImpact(impact[t])
		for u := 0; u < t; u++ {
			zz.Assume(impact[t] != impact[u])
		}
	}
	share := zz.NondetInt("bytesToSend")
	zz.Assume(share >= 0)
	zz.Assume(share < 1<<22)
	var wg sync.WaitGroup
	wg.Add(1)
	c.w.sendEarly <- sendEarly{wg: &wg, bytesToSend: share}
	c.barrier()
	wg.Wait()

	// expected: trace t is ejected iff the data size released by strictly heavier traces is <= share
	for t := 0; t < n; t++ {
		heavier := 0
		for u := 0; u < n; u++ {
			if u != t {
				heavier += zz.IteInt(impact[u] > impact[t], size[u], 0)
			}
		}
		want := heavier <= share
		got := c.samp.calls[tids[t]] == 1
		zz.Assert(got == want, "[C07] ejects heaviest impact first until the released data size exceeds the share (or the buffer is empty)")
		zz.Assert((c.w.cache.Get(tids[t]) == nil) == got, "[C07,C02] ejected traces leave the buffer, the others stay")
	}
	ejKept := 0
	for t := 0; t < n; t++ {
		if zz.And(c.samp.calls[tids[t]] == 1, zz.Or(dry, c.samp.keep[tids[t]])) {
			ejKept++
		}
	}
	zz.Assert(c.met.counts[TraceSendEjectedMemsize] == ejKept, "[C07] ejected traces are reported with the memory send reason")
	ejected := [3]bool{c.samp.calls["A"] == 1, c.samp.calls["B"] == 1, c.samp.calls["C"] == 1}
	c.finish(now + 1<<42)
	for _, r := range recs {
		k := c.tx.count(r.sp.Event)
		zz.Assert(c.samp.calls[tids[r.trace]] == 1, "[C01,C07] every trace decided exactly once (ejected or at its deadline)")
		if zz.Or(dry, c.samp.keep[tids[r.trace]]) {
			zz.Assert(k == 1, "[C02,C07] kept (or dry run): forwarded exactly once, ejected or not")
		} else {
			zz.Assert(k == 0, "[C02,C07] dropped: never forwarded")
		}
	}
	_ = ejected
}

// C01/C12: sampler reload with a shrinking kept-decision cache: K decisions, a reload that resizes the
// kept cache to newSize, then a late span for each trace. A late span of a trace whose decision is
// still among the newest newSize follows it; nothing is decided twice while it is remembered.
func Harness_C01_C31_reload_resize() {
	zz.MustCover("(*github.com/honeycombio/refinery/collect/cache.cuckooSentCache).Resize",
		"(*github.com/honeycombio/refinery/collect.InMemCollector).dealWithSentTrace")
	zz.Bound("traces", 3)
	cfg := &config.MockConfig{
		GetTracesConfigVal: config.TracesConfig{SendDelay: config.Duration(2 * time.Second), TraceTimeout: config.Duration(60 * time.Second), SendTicker: config.Duration(100 * time.Millisecond)},
		SampleCache:            config.SampleCacheConfig{KeptSize: 3, DroppedSize: 100, SizeCheckInterval: config.Duration(time.Hour)},
		GetCollectionConfigVal: config.CollectionConfig{WorkerCount: 1},
	}
	c := verifNewCW(cfg, 3)
	c.w.sampleCache = cache.VerifNewSentCacheMonitored(3, c.i.Metrics, c.clk)
	tids := [3]string{"A", "B", "C"}
	now := int64(1000)
	c.setNow(now)
	c.start()
	for t := 0; t < 3; t++ {
		c.samp.rate[tids[t]] = 1
		c.samp.keep[tids[t]] = true
		now += verifDur("dt")
		c.setNow(now)
		zz.Assert(c.i.AddSpan(c.span(tids[t], true, 1)) == nil, "span admitted")
		c.barrier()
		// decide it right away so that the decisions are recorded in the order A, B, C
		now += int64(3 * time.Second)
		c.tickAt(now)
		zz.Assert(c.samp.calls[tids[t]] == 1, "decided at the first tick after the root's SendDelay")
	}
	newSize := 1 + zz.Choose("newKeptSize", 3)
	cfg.Mux.Lock()
	cfg.SampleCache.KeptSize = uint(newSize)
	cfg.Mux.Unlock()
	c.w.reload <- struct{}{}
	c.barrier()
	zz.Assert(cache.VerifKeptLen(c.w.sampleCache) == newSize, "[C31] resize keeps min(old, new capacity) decisions")
	// optionally one more trace is kept after the reload: it displaces the oldest remembered
	// decision, not a recent one
	extra := 0
	if zz.NondetBool("newDecisionAfterReload") {
		extra = 1
		c.w.datasetSamplers["env"] = c.samp // the reload dropped the worker's samplers; the harness has no factory
		c.samp.rate["D"] = 1
		c.samp.keep["D"] = true
		now += verifDur("dt")
		c.setNow(now)
		zz.Assert(c.i.AddSpan(c.span("D", true, 1)) == nil, "span admitted")
		c.barrier()
		now += int64(3 * time.Second)
		c.tickAt(now)
		zz.Assert(c.samp.calls["D"] == 1, "decided at the first tick after the root's SendDelay")
	}
	// late spans, newest decision first so that lookups do not evict each other
	var late [3]*verifSpanRec
	for t := 2; t >= 0; t-- {
		now += verifDur("dt")
		c.setNow(now)
		sp := c.span(tids[t], false, 1)
		zz.Assert(c.i.AddSpan(sp) == nil, "span admitted")
		c.barrier()
		late[t] = &verifSpanRec{sp: sp, trace: t}
	}
	for t := 0; t < 3; t++ {
		remembered := t >= 3+extra-newSize // the newest newSize decisions (of A, B, C and the later D) are remembered
		if remembered {
			zz.Assert(c.samp.calls[tids[t]] == 1, "[C01,C31] a remembered decision is not made again for a late span")
			zz.Assert(c.tx.count(late[t].sp.Event) == 1, "[C01,C31] late span of a remembered kept trace is forwarded")
		}
	}
}

// C14 (decision time): makeDecision selects the sampler with the same key ingestion used
// (Config.DetermineSamplerKey): environment for environment keys, (prefixed) dataset for classic keys.
func Harness_C14_decision_selector() {
	zz.MustCover("(*github.com/honeycombio/refinery/collect.CollectorWorker).makeDecision")
	prefix := []string{"", "pfx"}[zz.Choose("datasetPrefix", 2)]
	classic := zz.NondetBool("classicKey")
	cfg := &config.MockConfig{
		GetTracesConfigVal: config.TracesConfig{SendDelay: config.Duration(2 * time.Second), TraceTimeout: config.Duration(60 * time.Second), SendTicker: config.Duration(100 * time.Millisecond)},
		DatasetPrefix:      prefix,
	}
	c := verifNewCW(cfg, 10)
	apiKey := "hcaik_0123456789abcdefghijklmnopqrstuvwxyz0123456789abcdefghijkl"
	if classic {
		apiKey = "0123456789abcdef0123456789abcdef"
	}
	// one sampler per possible selector; only the right one may be consulted
	mk := func() *verifSampler {
		return &verifSampler{rate: map[string]uint{"A": 1}, keep: map[string]bool{"A": true}, calls: map[string]int{}}
	}
	byEnv, byDataset, byPrefixed := mk(), mk(), mk()
	c.w.datasetSamplers = map[string]sample.Sampler{"env": byEnv, "d": byDataset, "pfx.d": byPrefixed}
	c.setNow(1000)
	c.start()
	sp := c.span("A", true, 1)
	sp.APIKey = apiKey
	zz.Assert(c.i.AddSpan(sp) == nil, "span admitted")
	c.barrier()
	c.tickAt(1000 + int64(3*time.Second))
	want := byEnv
	if classic {
		want = byDataset
		if prefix != "" {
			want = byPrefixed
		}
	}
	zz.Assert(want.calls["A"] == 1, "the trace is sampled by the sampler configured for its destination (environment, or DatasetPrefix.dataset for classic keys)")
	zz.Assert(byEnv.calls["A"]+byDataset.calls["A"]+byPrefixed.calls["A"] == 1, "and by no other")
	zz.Assert(cfg.DetermineSamplerKey(apiKey, "env", "d") == map[*verifSampler]string{byEnv: "env", byDataset: "d", byPrefixed: "pfx.d"}[want], "the same key ingestion uses to pick the fields to extract")
}
