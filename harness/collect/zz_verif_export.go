//go:build verif

package collect

import (
	"github.com/honeycombio/refinery/config"
	"github.com/honeycombio/refinery/types"
)

// Exported wrappers so that harnesses in package route can drive the REAL collector.

type VerifCW struct{ c *verifCW }

// VerifNewCW builds the collector of the CW family (one hand-built worker running the real
// collect loop) with the given stress reliever.
func VerifNewCW(cfg *config.MockConfig, sr StressReliever) *VerifCW {
	c := verifNewCW(cfg, 10)
	c.i.StressRelief = sr
	return &VerifCW{c}
}

func (v *VerifCW) Collector() *InMemCollector { return v.c.i }
func (v *VerifCW) Start(now int64)            { v.c.setNow(now); v.c.start() }
func (v *VerifCW) SetNow(now int64)           { v.c.setNow(now) }
func (v *VerifCW) Barrier()                   { v.c.barrier() }
func (v *VerifCW) Tick(now int64)             { v.c.tickAt(now) }
func (v *VerifCW) Finish(now int64)           { v.c.finish(now) }
func (v *VerifCW) SetDecision(tid string, rate uint, keep bool) {
	v.c.samp.rate[tid], v.c.samp.keep[tid] = rate, keep
}
func (v *VerifCW) Decisions(tid string) int       { return v.c.samp.calls[tid] }
func (v *VerifCW) Forwarded(ev *types.Event) int  { return v.c.tx.count(ev) }
func (v *VerifCW) ForwardedTotal() int            { return len(v.c.tx.events) }
func (v *VerifCW) Queued(tid string) int {
	n := 0
	for _, q := range []chan *types.Span{v.c.w.incoming, v.c.w.fromPeer} {
		k := len(q)
		for i := 0; i < k; i++ {
			sp := <-q
			if sp.TraceID == tid {
				n++
			}
			q <- sp
		}
	}
	return n
}

// VerifQueueLens: spans waiting in the incoming and peer queues of the worker.
func (v *VerifCW) VerifQueueLens() (int, int) { return len(v.c.w.incoming), len(v.c.w.fromPeer) }

// UpstreamSnapshot describes the k-th event handed to the upstream transmission as it was at
// enqueue time (the transmission keeps the pointer; sendBatch reads the destination later).
type VerifSnap struct {
	Ev      *types.Event
	APIHost string
	APIKey  string
	Dataset string
	Probe   bool
	Stressed any
}
