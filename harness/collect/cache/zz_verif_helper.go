//go:build verif

package cache

import (
	"time"

	lru "github.com/hashicorp/golang-lru/v2"
	"github.com/jonboulle/clockwork"
	cuckoo "github.com/panmari/cuckoofilter"

	"github.com/honeycombio/refinery/config"
	"github.com/honeycombio/refinery/generics"
	"github.com/honeycombio/refinery/metrics"
)

// VerifNewSentCache builds the real cuckooSentCache (real LRU, real SetWithTTL, real
// KeptReasonsCache, real CuckooTraceChecker add queue) without its background goroutines
// and with the recent-drops TTL set reading the harness clock.
func VerifNewSentCache(keptSize int, met metrics.Metrics, clk clockwork.Clock) TraceSentCache {
	stc, _ := lru.New[string, *keptTraceCacheEntry](keptSize)
	recent := generics.NewSetWithTTL[string](3 * time.Second)
	recent.Clock = clk
	dropped := &CuckooTraceChecker{capacity: 100, current: cuckoo.NewFilter(100), met: met, addch: make(chan string, AddQueueDepth), done: make(chan struct{})}
	return &cuckooSentCache{met: met, kept: stc, dropped: dropped, recentDroppedIDs: recent, cfg: config.SampleCacheConfig{}, keptReasons: NewKeptReasonsCache(met), done: make(chan struct{})}
}

// VerifDrain runs the real drain step of the dropped-trace filter (the add-queue goroutine
// "keeps up" assumption of C01/C31 made explicit).
func VerifDrain(c TraceSentCache) { c.(*cuckooSentCache).dropped.drain() }

// VerifKeptLen is the number of kept decisions currently remembered.
func VerifKeptLen(c TraceSentCache) int { return c.(*cuckooSentCache).kept.Len() }

// VerifNewSentCacheMonitored is VerifNewSentCache plus the cache's own monitor goroutine
// (needed by Resize, which hands over to a fresh monitor).
func VerifNewSentCacheMonitored(keptSize int, met metrics.Metrics, clk clockwork.Clock) TraceSentCache {
	c := VerifNewSentCache(keptSize, met, clk).(*cuckooSentCache)
	c.cfg.SizeCheckInterval = config.Duration(time.Hour)
	c.shutdownWG.Add(1)
	go c.monitor()
	return c
}
