//go:build verif

package cache

import (
	"time"

	"github.com/jonboulle/clockwork"

	"github.com/honeycombio/refinery/config"
	zz "github.com/honeycombio/refinery/internal/zzverif"
	"github.com/honeycombio/refinery/metrics"
	"github.com/honeycombio/refinery/types"
)

type verifClock struct {
	clockwork.Clock
	now time.Time
}

func (c *verifClock) Now() time.Time                  { return c.now }
func (c *verifClock) Since(t time.Time) time.Duration { return c.now.Sub(t) }

type verifKept struct {
	id     string
	rate   uint
	reason string
}

// C31: any sequence of K operations over 3 trace IDs on a decision cache with kept capacity 2:
// record kept (symbolic rate, one of 2 reasons), record dropped, lookup, resize to capacity 1..3,
// with time passing between operations (so that dropped IDs age out of the 3 s fast path and are
// answered by the filter). Lookups answer kept (with recorded rate and reason) for the most recently
// recorded-or-consulted kept IDs up to capacity, dropped wins, a resize keeps the newest.
func Harness_C31_cache() {
	zz.MustCover("(*github.com/honeycombio/refinery/collect/cache.cuckooSentCache).Record",
		"(*github.com/honeycombio/refinery/collect/cache.cuckooSentCache).CheckSpan",
		"(*github.com/honeycombio/refinery/collect/cache.cuckooSentCache).Resize",
		"(*github.com/honeycombio/refinery/collect/cache.KeptReasonsCache).Set",
		"(*github.com/honeycombio/refinery/collect/cache.CuckooTraceChecker).drain")
	zz.AssumeHashInjective()
	K := 3
	if zz.Thorough() {
		K = 4
	}
	zz.Bound("operations", K)
	zz.Bound("trace_ids", 3)
	clk := &verifClock{}
	now := int64(1000)
	clk.now = zz.MonoTime(now)
	c := VerifNewSentCacheMonitored(2, &metrics.NullMetrics{}, clk).(*cuckooSentCache)
	ids := [3]string{"A", "B", "C"}
	reasons := [2]string{"rule one", "rule two"}
	capacity := 2
	var lru []verifKept // most recent first
	var dropped [3]bool
	touch := func(k verifKept) {
		var n []verifKept
		n = append(n, k)
		for _, e := range lru {
			if e.id != k.id {
				n = append(n, e)
			}
		}
		if len(n) > capacity {
			n = n[:capacity]
		}
		lru = n
	}
	// start from a full cache: A then B recorded as kept
	for t := 0; t < 2; t++ {
		rate := zz.NondetUint("rate")
		zz.Assume(rate >= 1)
		zz.Assume(rate < 1<<31)
		tr := &types.Trace{TraceID: ids[t]}
		tr.SetSampleRate(rate)
		c.Record(tr, true, reasons[t])
		touch(verifKept{ids[t], rate, reasons[t]})
	}
	for step := 0; step < K; step++ {
		now += int64(zz.Choose("elapsed", 2)) * int64(4*time.Second) // nothing, or long enough to leave the 3 s fast path
		clk.now = zz.MonoTime(now)
		t := zz.Choose("id", 3)
		switch zz.Choose("op", 4) {
		case 0: // record kept
			rate := zz.NondetUint("rate")
			zz.Assume(rate >= 1)
			zz.Assume(rate < 1<<31)
			r := reasons[zz.Choose("reason", 2)]
			tr := &types.Trace{TraceID: ids[t]}
			tr.SetSampleRate(rate)
			c.Record(tr, true, r)
			touch(verifKept{ids[t], rate, r})
		case 1: // record dropped
			c.Record(&types.Trace{TraceID: ids[t]}, false, "")
			VerifDrain(c) // the add-queue drain keeps up (statement: barring add-queue overflow)
			dropped[t] = true
		case 2: // lookup by a late span
			rec, reason, found := c.CheckSpan(&types.Span{TraceID: ids[t], Event: &types.Event{}})
			var hit *verifKept
			for i := range lru {
				if lru[i].id == ids[t] {
					hit = &lru[i]
				}
			}
			switch {
			case dropped[t]:
				zz.Assert(found, "a trace recorded as dropped is remembered")
				if found {
					zz.Assert(!rec.Kept(), "dropped wins, even if the trace was also recorded as kept")
				}
			case hit != nil:
				zz.Assert(found, "a kept trace within capacity is remembered")
				if found {
					zz.Assert(rec.Kept(), "answered kept")
					zz.Assert(rec.Rate() == hit.rate, "with the recorded rate")
					zz.Assert(reason == hit.reason, "and the recorded reason")
				}
				touch(*hit)
			default:
				zz.Assert(!found, "nothing is answered for a trace never recorded or aged out of the kept capacity")
			}
		case 3: // resize
			capacity = 1 + zz.Choose("newCapacity", 3)
			zz.Assert(c.Resize(config.SampleCacheConfig{KeptSize: uint(capacity), DroppedSize: 100, WorkerCount: 1, SizeCheckInterval: config.Duration(time.Hour)}) == nil, "resize succeeds")
			if len(lru) > capacity {
				lru = lru[:capacity]
			}
		}
		zz.Assert(c.kept.Len() == len(lru), "the cache holds exactly the most recent kept decisions up to capacity")
		for t := 0; t < 3; t++ {
			in := false
			for _, e := range lru {
				if e.id == ids[t] {
					in = true
				}
			}
			zz.Assert(c.kept.Contains(ids[t]) == in, "which are the most recently recorded or consulted ones")
		}
	}
}
