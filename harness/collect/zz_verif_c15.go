//go:build verif

package collect

import (
	"context"
	"math"
	"time"

	"github.com/honeycombio/refinery/config"
	zz "github.com/honeycombio/refinery/internal/zzverif"
	"github.com/honeycombio/refinery/logger"
	"github.com/honeycombio/refinery/metrics"
)

type verifGetMetrics struct {
	metrics.NullMetrics
	vals map[string]float64
}

func (m *verifGetMetrics) Get(name string) (float64, bool) {
	v, ok := m.vals[name]
	return v, ok
}

func verifStressMachine(mode string, act, deact uint, minDur int64, clk *verifClock, met *verifGetMetrics) *StressRelief {
	cfg := &config.MockConfig{StressRelief: config.StressReliefConfig{Mode: mode, ActivationLevel: act, DeactivationLevel: deact, SamplingRate: 100, MinimumActivationDuration: config.Duration(minDur)}}
	s := &StressRelief{Config: cfg, Logger: &logger.NullLogger{}, RefineryMetrics: met, Clock: clk, hostID: "self", stressLevels: map[string]stressReport{}}
	s.algorithms = map[string]func(string, string) float64{"linear": s.linear, "sqrt": s.sqrt, "square": s.square, "sigmoid": s.sigmoid}
	s.UpdateFromConfig()
	return s
}

// C15 (state machine): three Recalc steps at symbolic instants with local levels in {0,50,90,100}
// (concrete metric readings, so the float pipeline folds), one peer report with level in {0,40,95}
// and a symbolic age, symbolic thresholds (Activation > Deactivation) and minimum duration, optional
// reload of the thresholds between steps. The level acted on is max(own, RMS of recent nonzero
// reports); relief follows the documented hysteresis.
func Harness_C15_machine() {
	zz.MustCover("(*github.com/honeycombio/refinery/collect.StressRelief).Recalc",
		"(*github.com/honeycombio/refinery/collect.StressRelief).onStressLevelUpdate",
		"(*github.com/honeycombio/refinery/collect.StressRelief).clusterStressLevel",
		"(*github.com/honeycombio/refinery/collect.StressRelief).ratio")
	zz.Bound("recalc_steps", 3)
	zz.Bound("peer_reports", 1)
	mode := []string{"never", "monitor", "always"}[zz.Choose("mode", 3)]
	act := zz.NondetUint("activationLevel")
	deact := zz.NondetUint("deactivationLevel")
	zz.Assume(act <= 100)
	zz.Assume(deact < act)
	minDur := verifDur("minimumActivationDuration")
	clk := &verifClock{}
	met := &verifGetMetrics{vals: map[string]float64{DENOMINATOR_INCOMING_CAP: 100, DENOMINATOR_PEER_CAP: 100, NUMERATOR_PEER_QUEUE: 0, NUMERATOR_INCOMING_QUEUE: 0}}
	now := verifDur("t0") + int64(20*time.Second)
	clk.now = zz.MonoTime(now)
	s := verifStressMachine(mode, act, deact, minDur, clk, met)
	// one peer report
	peerLevel := []uint{0, 40, 95}[zz.Choose("peerLevel", 3)]
	peerAt := now - verifDur("peerReportAge")
	// the report arrives the way peers' reports do, through the pubsub callback, at its own instant
	peerMsg := newStressReliefMessage(peerLevel, "peer1").String()
	clk.now = zz.MonoTime(peerAt)
	s.onStressLevelUpdate(context.Background(), peerMsg)
	clk.now = zz.MonoTime(now)
	readings := []float64{0, 25, 81, 100} // sqrt(x/100)*100 = 0, 50, 90, 100
	levels := []uint{0, 50, 90, 100}
	stressed := false
	var lastHigh int64
	for step := 0; step < 3; step++ {
		now += verifDur("dt")
		clk.now = zz.MonoTime(now)
		if (step == 1 || zz.Thorough()) && zz.NondetBool("peerReportsAgain") {
			// the peer repeats its (unchanged) level: the report is as recent as its latest arrival
			s.onStressLevelUpdate(context.Background(), peerMsg)
			peerAt = now
		}
		li := zz.Choose("localLevel", 4)
		met.vals[NUMERATOR_INCOMING_QUEUE] = readings[li]
		local := s.Recalc()
		zz.Assert(local == levels[li], "local level from the queue reading")
		// reference: RMS of the recent nonzero reports (own one included)
		peerRecent := now-peerAt <= int64(10*time.Second)
		var sumsq, n uint
		if levels[li] != 0 {
			sumsq, n = levels[li]*levels[li], 1
		}
		if peerRecent && peerLevel != 0 {
			sumsq, n = sumsq+peerLevel*peerLevel, n+1
		}
		cluster := uint(0)
		if n > 0 {
			cluster = uint(math.Sqrt(float64(sumsq) / float64(n)))
		}
		want := cluster
		if levels[li] > want {
			want = levels[li]
		}
		zz.Assert(s.overallStressLevel == want, "level acted on = max(own level, RMS of recent nonzero peer levels)")
		zz.Assert(s.overallStressLevel <= 100, "level stays within [0,100] when reports do")
		switch mode {
		case "never":
			zz.Assert(!s.Stressed(), "never: relief permanently off")
		case "always":
			zz.Assert(s.Stressed(), "always: relief permanently on")
		default:
			if !stressed && want >= act {
				stressed = true
			}
			if stressed && want >= deact {
				lastHigh = now
			}
			if stressed && want < deact && now > lastHigh+minDur {
				stressed = false
			}
			zz.Assert(s.Stressed() == stressed, "monitor: on at ActivationLevel; off only below DeactivationLevel and MinimumActivationDuration after it was last at or above it")
		}
	}
}

// C15 (level range, floating point): the cluster level floor(sqrt(sum of squares / n)) of up to 3
// reports each <= 100 is <= 100 and >= the smallest report.
func Harness_C15_rms_range() {
	zz.MustCover("(*github.com/honeycombio/refinery/collect.StressRelief).clusterStressLevel")
	clk := &verifClock{}
	clk.now = zz.MonoTime(int64(100 * time.Second))
	met := &verifGetMetrics{vals: map[string]float64{}}
	s := verifStressMachine("monitor", 90, 75, 0, clk, met)
	n := 1 + zz.Choose("peers", 2)
	for i := 0; i < n; i++ {
		l := zz.NondetUint("peerLevel")
		zz.Assume(l <= 100)
		key := []string{"p1", "p2"}[i]
		s.stressLevels[key] = stressReport{key: key, level: l, timestamp: clk.now}
	}
	local := zz.NondetUint("localLevel")
	zz.Assume(local <= 100)
	got := s.clusterStressLevel(local)
	zz.Assert(got <= 100, "cluster level <= 100 whenever every report is")
}
