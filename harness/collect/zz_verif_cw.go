//go:build verif

package collect

import (
	"time"

	"github.com/jonboulle/clockwork"
	"go.opentelemetry.io/otel/trace/noop"

	"github.com/honeycombio/refinery/collect/cache"
	"github.com/honeycombio/refinery/config"
	zz "github.com/honeycombio/refinery/internal/zzverif"
	"github.com/honeycombio/refinery/logger"
	"github.com/honeycombio/refinery/metrics"
	"github.com/honeycombio/refinery/sample"
	"github.com/honeycombio/refinery/types"
)

// ---- recording transmission ----

type verifTx struct {
	events []*types.Event
	rates  []uint
}

func (r *verifTx) EnqueueEvent(ev *types.Event) {
	r.events = append(r.events, ev)
	r.rates = append(r.rates, ev.SampleRate)
}
func (r *verifTx) EnqueueSpan(sp *types.Span) { r.EnqueueEvent(sp.Event) }

func (r *verifTx) count(ev *types.Event) int {
	n := 0
	for _, e := range r.events {
		if e == ev {
			n++
		}
	}
	return n
}

// ---- recording metrics (counters only) ----

type verifMetrics struct {
	metrics.NullMetrics
	counts map[string]int
}

func (m *verifMetrics) Increment(name string) {
	if m.counts == nil {
		m.counts = map[string]int{}
	}
	m.counts[name]++
}

// ---- sampler with an arbitrary decision per trace id ----

type verifSampler struct {
	rate  map[string]uint
	keep  map[string]bool
	calls map[string]int
	fields []string
}

func (s *verifSampler) GetSampleRate(t *types.Trace) (uint, bool, string, string) {
	s.calls[t.TraceID]++
	return s.rate[t.TraceID], s.keep[t.TraceID], "verif", ""
}
func (s *verifSampler) GetKeyFields() ([]string, []string) { return s.fields, s.fields }
func (s *verifSampler) Start() error                        { return nil }

// ---- clock: harness-set instants, harness-fed ticker ----

type verifTicker struct{ ch chan time.Time }

func (t *verifTicker) Chan() <-chan time.Time { return t.ch }
func (t *verifTicker) Stop()                      {}
func (t *verifTicker) Reset(d time.Duration)      {}

type verifClock struct {
	clockwork.Clock
	now     time.Time
	tick    *verifTicker // the worker's send ticker
	monTick *verifTicker // the collector monitor's 100 ms ticker (only fed when a harness wants it)
	splitMonitor bool
}

func (c *verifClock) Now() time.Time                  { return c.now }
func (c *verifClock) Since(t time.Time) time.Duration { return c.now.Sub(t) }
func (c *verifClock) NewTicker(d time.Duration) clockwork.Ticker {
	t := &verifTicker{ch: make(chan time.Time, 1)}
	if c.splitMonitor && d == 100*time.Millisecond {
		c.monTick = t
	} else {
		c.tick = t
	}
	return t
}

// ---- a collector with hand-built workers running the REAL collect() loop ----

type verifCW struct {
	i    *InMemCollector
	w    *CollectorWorker
	cfg  *config.MockConfig
	clk  *verifClock
	tx   *verifTx
	met  *verifMetrics
	samp *verifSampler
}

func verifNewCW(cfg *config.MockConfig, keptSize int) *verifCW {
	clk := &verifClock{}
	tx := &verifTx{}
	met := &verifMetrics{}
	i := &InMemCollector{Config: cfg, Logger: &logger.NullLogger{}, Clock: clk, Transmission: tx, Metrics: met, Tracer: noop.Tracer{}}
	i.tracesToSend = make(chan sendableTrace, 100)
	samp := &verifSampler{rate: map[string]uint{}, keep: map[string]bool{}, calls: map[string]int{}}
	w := &CollectorWorker{parent: i, cache: cache.NewInMemCache(i.Metrics, i.Logger), sampleCache: cache.VerifNewSentCache(keptSize, i.Metrics, clk),
		datasetSamplers: map[string]sample.Sampler{"env": samp},
		incoming:        make(chan *types.Span, 16), fromPeer: make(chan *types.Span, 16), sendEarly: make(chan sendEarly, 1), pause: make(chan chan struct{}), reload: make(chan struct{}, 1)}
	i.workers = []*CollectorWorker{w}
	return &verifCW{i: i, w: w, cfg: cfg, clk: clk, tx: tx, met: met, samp: samp}
}

func (c *verifCW) start() {
	c.i.workersWG.Add(1)
	go c.w.collect()
	c.barrier()
}

// barrier: the worker's own unbuffered pause channel; when it returns the worker has
// finished everything queued before it (the idiom of the repo's tests).
func (c *verifCW) barrier() {
	for {
		c.handshake()
		// Go's select picks at random among ready cases, so the pause may be taken before the
		// queued item: repeat until every queue is empty, then once more (whatever was taken
		// before that last handshake has been processed when it completes).
		if len(c.w.incoming) == 0 && len(c.w.fromPeer) == 0 && len(c.w.sendEarly) == 0 && len(c.w.reload) == 0 && (c.clk.tick == nil || len(c.clk.tick.ch) == 0) {
			c.handshake()
			return
		}
	}
}

func (c *verifCW) handshake() {
	p := make(chan struct{})
	c.w.pause <- p
	close(p)
}

func (c *verifCW) setNow(ns int64) { c.clk.now = zz.MonoTime(ns) }

func (c *verifCW) tickAt(ns int64) {
	c.setNow(ns)
	c.clk.tick.ch <- c.clk.now
	c.barrier()
	cache.VerifDrain(c.w.sampleCache) // the add-queue drain goroutine keeps up (assumption of C01/C31)
}

func (c *verifCW) span(tid string, root bool, rate uint) *types.Span {
	ev := &types.Event{APIKey: "k", Dataset: "d", Environment: "env", SampleRate: rate, Data: types.NewPayload(c.cfg, map[string]any{"f": int64(1)})}
	return &types.Span{Event: ev, TraceID: tid, IsRoot: root}
}

// finish: a last tick far beyond every deadline, then stop the worker and run the real sender loop.
func (c *verifCW) finish(ns int64) {
	c.tickAt(ns)
	close(c.w.incoming)
	close(c.w.fromPeer)
	close(c.i.tracesToSend)
	c.i.sendTracesWG.Add(1)
	c.i.sendTraces()
}

func verifDur(name string) int64 {
	d := zz.NondetInt64(name)
	zz.Assume(d >= 0)
	zz.Assume(d < 1<<40)
	return d
}

func verifRate(name string) uint {
	r := zz.NondetUint(name)
	zz.Assume(r < 1<<31)
	return r
}

type verifSpanRec struct {
	sp     *types.Span
	trace  int
	client uint
	late   bool // arrived after its trace was decided
}

// Schedule harness for the trace lifecycle: K steps, each a span arrival (trace A or B, child or
// root, via the incoming or the peer queue) or a send tick at a fresh instant; then a final tick
// beyond every deadline. All instants, client rates, sampler decisions, DryRun and the
// SendDelay/TraceTimeout settings are symbolic.
func Harness_C01_C02_C03_C04_C05_schedule() {
	zz.MustCover("(*github.com/honeycombio/refinery/collect.CollectorWorker).collect",
		"(*github.com/honeycombio/refinery/collect.CollectorWorker).processSpan",
		"(*github.com/honeycombio/refinery/collect.CollectorWorker).sendExpiredTracesInCache",
		"(*github.com/honeycombio/refinery/collect.CollectorWorker).makeDecision",
		"(*github.com/honeycombio/refinery/collect.InMemCollector).send",
		"(*github.com/honeycombio/refinery/collect.InMemCollector).sendTraces",
		"(*github.com/honeycombio/refinery/collect.InMemCollector).dealWithSentTrace",
		"(*github.com/honeycombio/refinery/collect/cache.DefaultInMemCache).TakeExpiredTraces",
		"(*github.com/honeycombio/refinery/collect/cache.cuckooSentCache).Record",
		"(*github.com/honeycombio/refinery/collect/cache.cuckooSentCache).CheckSpan")
	K := 4
	if zz.Thorough() {
		K = 5
	}
	zz.Bound("schedule_steps", K)
	zz.Bound("traces", 2)
	dry := zz.NondetBool("dryRun")
	sendDelay := verifDur("sendDelay")
	traceTimeout := verifDur("traceTimeout")
	cfg := &config.MockConfig{
		GetTracesConfigVal: config.TracesConfig{SendDelay: config.Duration(sendDelay), TraceTimeout: config.Duration(traceTimeout), SendTicker: config.Duration(100 * time.Millisecond)},
		DryRun:             dry,
	}
	c := verifNewCW(cfg, 10)
	tids := [2]string{"A", "B"}
	for _, t := range tids {
		r := zz.NondetUint("samplerRate")
		zz.Assume(r >= 1)
		zz.Assume(r < 1<<31)
		c.samp.rate[t] = r
		c.samp.keep[t] = zz.NondetBool("samplerKeep")
	}
	effDelay := zz.IteInt64(sendDelay == 0, int64(2*time.Second), sendDelay)
	effTimeout := zz.IteInt64(traceTimeout == 0, int64(60*time.Second), traceTimeout)

	now := verifDur("t0")
	c.setNow(now)
	c.start()

	viaPeer := zz.NondetBool("viaPeer")
	var recs []verifSpanRec
	var seen, decided [2]bool
	var deadline [2]int64
	for step := 0; step < K; step++ {
		now += verifDur("dt")
		op := zz.Choose("op", 4)
		if op == 3 {
			c.tickAt(now)
			for t := 0; t < 2; t++ {
				if seen[t] && !decided[t] {
					dec := c.samp.calls[tids[t]] >= 1
					zz.Assert(dec == (now >= deadline[t]), "[C03] a buffered trace is decided at a tick iff its deadline has been reached")
					decided[t] = dec
				}
			}
			continue
		}
		t := 0
		root := false
		switch op {
		case 1:
			root = true
		case 2:
			t = 1
		}
		c.setNow(now)
		client := verifRate("clientRate")
		sp := c.span(tids[t], root, client)
		if viaPeer {
			zz.Assert(c.i.AddSpanFromPeer(sp) == nil, "peer span admitted")
		} else {
			zz.Assert(c.i.AddSpan(sp) == nil, "span admitted")
		}
		c.barrier()
		recs = append(recs, verifSpanRec{sp: sp, trace: t, client: client, late: decided[t]})
		if !decided[t] {
			if !seen[t] {
				seen[t] = true
				deadline[t] = now + effTimeout
			}
			if root {
				deadline[t] = zz.IteInt64(now+effDelay < deadline[t], now+effDelay, deadline[t])
			}
		}
	}
	c.finish(now + 1<<42)

	for t := 0; t < 2; t++ {
		if seen[t] {
			zz.Assert(c.samp.calls[tids[t]] == 1, "[C01] exactly one sampler decision per trace")
		} else {
			zz.Assert(c.samp.calls[tids[t]] == 0, "[C01,C02] no decision for a trace that never arrived")
		}
	}
	for _, r := range recs {
		n := c.tx.count(r.sp.Event)
		keep := c.samp.keep[tids[r.trace]]
		rate := c.samp.rate[tids[r.trace]]
		eff := zz.IteUint(r.client < 1, 1, r.client)
		if zz.Or(keep, dry) {
			zz.Assert(n == 1, "[C01,C02,C05] kept (or dry run): every accepted span forwarded exactly once")
			if dry {
				zz.Assert(zz.IteUint(r.sp.SampleRate < 1, 1, r.sp.SampleRate) == eff, "[C05] dry run forwards with the client's rate (absent, 0 and 1 equivalent)")
				zz.Assert(r.sp.Data.Get(config.DryRunFieldName) == any(keep), "[C05] dry-run marker equals the sampler's decision")
			} else {
				zz.Assert(r.sp.SampleRate == eff*rate, "[C04] forwarded rate = max(client,1) * trace rate (on time and late)")
				zz.Assert(r.sp.Data.Get(types.MetaRefineryFinalSampleRate) == any(int64(eff*rate)), "[C04] final_sample_rate records the product")
			}
		} else {
			zz.Assert(n == 0, "[C01,C02] dropped: no span forwarded")
		}
	}
	zz.Assert(len(c.tx.events) <= len(recs), "[C02] nothing forwarded that was not accepted")
	zz.Assert(c.w.cache.GetCacheEntryCount() == 0, "[C02] every accepted span's trace was decided (buffer empty after the final tick)")
}
