//go:build verif

package route

import (
	"errors"
	"io"
	"net/http"
	"net/url"

	"github.com/honeycombio/refinery/config"
	zz "github.com/honeycombio/refinery/internal/zzverif"
	"github.com/honeycombio/refinery/logger"
	"github.com/honeycombio/refinery/metrics"
)

var (
	verifUpReq     *http.Request
	verifUpReqBody []byte
	verifUpResp    *http.Response
	verifUpErr     error
)

// engine: the HTTP client is "hands the request to the upstream, returns what the upstream answers"
//
//verif:model (*net/http.Client).Do
func verifClientDo(c *http.Client, req *http.Request) (*http.Response, error) {
	return verifRoundTrip(req)
}

func verifRoundTrip(req *http.Request) (*http.Response, error) {
	verifUpReq = req
	if req.Body != nil {
		verifUpReqBody, _ = io.ReadAll(req.Body)
	}
	return verifUpResp, verifUpErr
}

// native: the same, as the client's transport
type verifTransport struct{}

func (verifTransport) RoundTrip(req *http.Request) (*http.Response, error) { return verifRoundTrip(req) }

// C37: the real proxy handler: method, URL (target + original path and query), body bytes and header
// values reach the upstream as sent (+ X-Forwarded-For); upstream status, headers and body come back
// unchanged; an unreachable upstream gives exactly one error response.
func Harness_C37_proxy() {
	zz.MustCover("(*github.com/honeycombio/refinery/route.Router).proxy")
	zz.Bound("body_len", 2)
	cfg := &config.MockConfig{GetHoneycombAPIVal: "https://api.honeycomb.io"}
	r := &Router{Config: cfg, Logger: &logger.NullLogger{}, Metrics: &metrics.NullMetrics{}, proxyClient: &http.Client{Transport: verifTransport{}}}
	method := []string{"GET", "POST", "PUT", "DELETE"}[zz.Choose("method", 4)]
	body := zz.NondetBytes("body", zz.Choose("bodyLen", 3))
	hv := zz.NondetStringN("headerValue", 1)
	zz.Assume(hv[0] > ' ' && hv[0] < 0x7f && hv[0] != ',')
	fwd := zz.NondetBool("hasForwardedFor")
	multi := zz.NondetBool("multiValuedHeader")
	knownLen := zz.NondetBool("contentLengthKnown")
	// the request target as the HTTP server parses it: a plain path, or one with percent-escaped
	// reserved characters (decoded Path, original RawPath)
	target := []*url.URL{
		{Path: "/1/markers/ds", RawQuery: "a=1&b=2"},
		{Path: "/1/markers/a/b c", RawPath: "/1/markers/a%2Fb%20c", RawQuery: "a=1&b=2"},
		{Path: "/1/markers/q?x", RawPath: "/1/markers/q%3Fx", RawQuery: "a=1&b=2"},
	}[zz.Choose("target", 3)]
	wantURL := "https://api.honeycomb.io" + target.EscapedPath() + "?a=1&b=2"
	req := &http.Request{Method: method, URL: target, Header: http.Header{"X-Custom": {hv}}, RemoteAddr: "10.0.0.9:1234",
		Body: &verifBody{data: body}, ContentLength: -1}
	if knownLen {
		req.ContentLength = int64(len(body))
	}
	if fwd {
		req.Header["X-Forwarded-For"] = []string{"1.2.3.4"}
	}
	if multi {
		req.Header["X-Multi"] = []string{"v1", "v2"}
	}
	upFails := zz.NondetBool("upstreamUnreachable")
	status := []int{200, 201, 404, 500}[zz.Choose("upstreamStatus", 4)]
	respBody := zz.NondetBytes("respBody", zz.Choose("respBodyLen", 3))
	rhv := zz.NondetStringN("respHeaderValue", 1)
	zz.Assume(rhv[0] > ' ' && rhv[0] < 0x7f && rhv[0] != ',')
	verifUpReq, verifUpReqBody = nil, nil
	verifUpResp = &http.Response{StatusCode: status, Header: http.Header{"X-Up": {rhv}}, Body: &verifBody{data: respBody}}
	verifUpErr = nil
	if upFails {
		verifUpResp, verifUpErr = nil, errors.New("connection refused")
	}
	rw := newVerifRW()
	r.proxy(rw, req)

	zz.Assert(verifUpReq != nil, "the request is relayed upstream")
	if verifUpReq != nil {
		zz.Assert(verifUpReq.Method == method, "same method")
		zz.Assert(verifUpReq.URL.String() == wantURL, "same path (escapes included) and query on the Honeycomb API host")
		zz.Assert(string(verifUpReqBody) == string(body), "same body, whether or not its length was announced")
		zz.Assert(verifUpReq.Header.Get("X-Custom") == hv, "same header values")
		want := "10.0.0.9:1234"
		if fwd {
			want = "1.2.3.4, 10.0.0.9:1234"
		}
		zz.Assert(verifUpReq.Header.Get("X-Forwarded-For") == want, "X-Forwarded-For extended with the client address")
		if multi {
			zz.AssertKnown("C37-multi-valued-headers-folded", len(verifUpReq.Header["X-Multi"]) == 2, "a header sent with several values reaches the upstream with the same values")
		}
	}
	if upFails {
		zz.Assert(rw.status >= 500 && rw.writes == 1, "unreachable upstream: exactly one error response")
	} else {
		zz.Assert(rw.status == status, "upstream status returned unchanged")
		zz.Assert(string(rw.body) == string(respBody), "upstream body returned unchanged")
		zz.Assert(rw.hdr.Get("X-Up") == rhv, "upstream headers returned unchanged")
		zz.Assert(rw.headerCalls == 1, "one response")
	}
}
