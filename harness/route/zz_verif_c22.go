//go:build verif

package route

import (
	"time"

	zz "github.com/honeycombio/refinery/internal/zzverif"
)

// C22 (epoch header): a header made of ten second digits followed by k in {0,3,6,9} fraction
// digits, every instant between Sept 2001 and 2286 (all digits symbolic through their numeric
// value), is turned into exactly that instant.
func Harness_C22_epoch() {
	zz.MustCover("github.com/honeycombio/refinery/route.getEventTime")
	zz.Bound("seconds_digits", 10)
	zz.Bound("fraction_digits_max", 9)
	k := []int{0, 3, 6, 9}[zz.Choose("fractionDigits", 4)]
	secs := zz.NondetUint64("seconds")
	zz.Assume(secs >= 1000000000)
	zz.Assume(secs <= 9999999999)
	pow := uint64(1)
	for i := 0; i < k; i++ {
		pow *= 10
	}
	frac := zz.NondetUint64("fraction")
	zz.Assume(frac < pow)
	hdr := zz.Decimal(secs, 10)
	if k > 0 {
		hdr += zz.Decimal(frac, k)
	}
	got := getEventTime(hdr)
	wantNanos := frac * (1000000000 / pow)
	zz.Observe("unix", got.Unix())
	zz.Assert(uint64(got.Unix()) == secs, "seconds preserved exactly")
	zz.Assert(uint64(got.Nanosecond()) == wantNanos, "fraction of a second preserved exactly")
	zz.Assert(got.Location() == time.UTC, "reported in UTC")
}

// C22 (RFC 3339): a header that parses as RFC 3339 is returned as that instant.
func Harness_C22_rfc3339() {
	zz.MustCover("github.com/honeycombio/refinery/route.getEventTime")
	hdrs := []string{"2018-08-30T00:36:22Z", "2018-08-30T00:36:22.123456789Z", "2001-09-09T01:46:40+00:00", "2286-11-20T17:46:39.999-07:00", "2018-08-30T00:36:22.5Z"}
	h := hdrs[zz.Choose("header", len(hdrs))]
	want, err := time.Parse(time.RFC3339Nano, h)
	zz.Assert(err == nil, "sample is valid RFC 3339")
	got := getEventTime(h)
	zz.Assert(got.Unix() == want.Unix(), "RFC 3339 instant preserved (seconds)")
	zz.Assert(got.Nanosecond() == want.Nanosecond(), "RFC 3339 instant preserved (nanoseconds)")
}
