//go:build verif

package route

import (
	"context"

	huskyotlp "github.com/honeycombio/husky/otlp"
	"github.com/tinylib/msgp/msgp"
	"google.golang.org/grpc/codes"
	"google.golang.org/grpc/metadata"
	"go.opentelemetry.io/otel/trace/noop"

	"github.com/honeycombio/refinery/config"
	zz "github.com/honeycombio/refinery/internal/zzverif"
	"github.com/honeycombio/refinery/logger"
	"github.com/honeycombio/refinery/metrics"
	"github.com/honeycombio/refinery/types"
)

type verifStatusErr struct {
	code codes.Code
	msg  string
}

func (e *verifStatusErr) Error() string { return e.msg }

// grpc/status builds protobuf messages; the engine only needs "a non-nil error with this code".
//
//verif:model google.golang.org/grpc/status.Error
func verifStatusError(c codes.Code, msg string) error { return &verifStatusErr{c, msg} }

// C24 (gRPC trace export): the real customTraceExportHandler + ExportTraceData with the request
// decoding step replaced by a closure that hands over one already-translated event.
func Harness_C24_grpc_trace() {
	zz.MustCover("github.com/honeycombio/refinery/route.customTraceExportHandler",
		"(*github.com/honeycombio/refinery/route.TraceServer).ExportTraceData",
		"(*github.com/honeycombio/refinery/route.Router).processOTLPRequestBatchMsgp")
	modes := []string{"none", "all", "nonblank", "listedonly", "missingonly", "unlisted"}
	mode := modes[zz.Choose("mode", len(modes))]
	only := zz.NondetBool("acceptOnlyListed")
	send := []string{"", "hcaik_sendsendsendsendsendsendsendsendsendsendsendsendsendsendsend1"}[zz.Choose("sendKeyConfigured", 2)]
	acc := config.AccessKeyConfig{ReceiveKeys: []string{verifListedKey}, SendKey: send, SendKeyMode: mode, AcceptOnlyListedKeys: only}
	clientKeys := []string{"", send, verifListedKey, verifUnlistedKey}
	key := clientKeys[zz.Choose("clientKey", len(clientKeys))]
	cfg := &config.MockConfig{GetAccessKeyConfigVal: acc, GetHoneycombAPIVal: "https://api.honeycomb.io", TraceIdFieldNames: []string{"trace.trace_id"}, ParentIdFieldNames: []string{"trace.parent_id"}}
	coll := &verifAdmitCollector{}
	up, peer := &verifRecTx{}, &verifRecTx{}
	r := &Router{Config: cfg, Logger: &logger.NullLogger{}, UpstreamTransmission: up, PeerTransmission: peer, Sharder: &verifSharder{self: verifSelf, owner: verifSelf},
		Collector: coll, Metrics: &metrics.NullMetrics{}, routerType: types.RouterTypeIncoming, Tracer: noop.Tracer{}}
	r.iopLogger = iopLogger{Logger: r.Logger, incomingOrPeer: "incoming"}
	r.environmentCache = newEnvironmentCache(1e9, func(k string) (authData, error) { return authData{environment: "env", keyID: "other"}, nil })
	md := metadata.MD{}
	if key != "" {
		md["x-honeycomb-team"] = []string{key}
	}
	ctx := metadata.NewIncomingContext(context.Background(), md)
	attrs := msgp.AppendMapHeader(nil, 1)
	attrs = msgp.AppendString(attrs, "trace.trace_id")
	attrs = msgp.AppendString(attrs, "T1")
	dec := func(v any) error {
		v.(*translatedTraceServiceRequest).result = &huskyotlp.TranslateOTLPRequestResultMsgp{Batches: []huskyotlp.BatchMsgp{{Dataset: "ds", Events: []huskyotlp.EventMsgp{{Attributes: attrs, SampleRate: 1}}}}}
		return nil
	}
	_, err := customTraceExportHandler(&TraceServer{router: r}, ctx, dec, nil)

	listed := key == verifListedKey
	accepted := !only || (send != "" && key == send) || listed
	want := key
	if send != "" {
		switch mode {
		case "all":
			want = send
		case "nonblank":
			if key != "" {
				want = send
			}
		case "listedonly":
			if listed {
				want = send
			}
		case "missingonly":
			if key == "" {
				want = send
			}
		case "unlisted":
			if key != "" && !listed {
				want = send
			}
		}
	}
	if accepted && want != "" {
		zz.Assert(err == nil, "gRPC trace export: an acceptable key is accepted")
		zz.Assert(len(coll.spans) == 1, "and its data processed")
		if len(coll.spans) == 1 {
			zz.Assert(coll.spans[0].APIKey == want, "with the key the SendKeyMode table prescribes")
		}
	} else {
		zz.Assert(err != nil, "gRPC trace export: acceptance is decided on the key the client sent, as on every other endpoint")
		zz.Assert(len(coll.spans) == 0, "and nothing of a refused request is processed")
	}
}
