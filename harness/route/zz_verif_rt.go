//go:build verif

package route

import (
	"github.com/tinylib/msgp/msgp"
	"github.com/honeycombio/refinery/collect"
	"github.com/honeycombio/refinery/config"
	zz "github.com/honeycombio/refinery/internal/zzverif"
	"github.com/honeycombio/refinery/logger"
	"github.com/honeycombio/refinery/metrics"
	"github.com/honeycombio/refinery/sharder"
	"github.com/honeycombio/refinery/types"
)

// ---- recording transmission: keeps the pointer AND a snapshot taken at enqueue time ----

type verifSnap struct {
	ev      *types.Event
	host    string
	key     string
	dataset string
	probe   bool
	rate    uint
}

type verifRecTx struct{ q []verifSnap }

func (t *verifRecTx) EnqueueEvent(ev *types.Event) {
	t.q = append(t.q, verifSnap{ev: ev, host: ev.APIHost, key: ev.APIKey, dataset: ev.Dataset, probe: ev.Data.MetaRefineryProbe.HasValue && ev.Data.MetaRefineryProbe.Value, rate: ev.SampleRate})
}
func (t *verifRecTx) EnqueueSpan(sp *types.Span) { t.EnqueueEvent(sp.Event) }
func (t *verifRecTx) count(ev *types.Event) int {
	n := 0
	for _, s := range t.q {
		if s.ev == ev {
			n++
		}
	}
	return n
}

// ---- sharder with a harness-chosen owner ----

type verifShard string

func (s verifShard) Equals(o sharder.Shard) bool { return s.GetAddress() == o.GetAddress() }
func (s verifShard) GetAddress() string          { return string(s) }

type verifSharder struct {
	self  verifShard
	owner verifShard
}

func (s *verifSharder) MyShard() sharder.Shard           { return s.self }
func (s *verifSharder) WhichShard(string) sharder.Shard { return s.owner }

// ---- stress reliever with a harness-chosen state and decision ----

type verifStress struct {
	collect.MockStressReliever
	on   bool
	rate uint
	keep bool
}

func (s *verifStress) Stressed() bool { return s.on }
func (s *verifStress) GetSampleRate(traceID string) (uint, bool, string) {
	return s.rate, s.keep, "stress_relief/deterministic/verif"
}

const (
	verifSelf  = "http://self:8081"
	verifOther = "http://other:8081"
)

type verifRT struct {
	r    *Router
	cw   *collect.VerifCW
	up   *verifRecTx
	peer *verifRecTx
	sh   *verifSharder
	sr   *verifStress
	cfg  *config.MockConfig
}

func verifNewRT(incoming bool) *verifRT {
	cfg := &config.MockConfig{
		GetTracesConfigVal: config.TracesConfig{SendDelay: config.Duration(2e9), TraceTimeout: config.Duration(60e9), SendTicker: config.Duration(1e8)},
		TraceIdFieldNames:  []string{"trace.trace_id", "traceId"},
		ParentIdFieldNames: []string{"trace.parent_id", "parentId"},
	}
	sr := &verifStress{}
	cw := collect.VerifNewCW(cfg, sr)
	up, peer := &verifRecTx{}, &verifRecTx{}
	cw.Collector().Transmission = up
	sh := &verifSharder{self: verifSelf, owner: verifSelf}
	rt := types.RouterTypeIncoming
	if !incoming {
		rt = types.RouterTypePeer
	}
	r := &Router{Config: cfg, Logger: &logger.NullLogger{}, UpstreamTransmission: up, PeerTransmission: peer, Sharder: sh, Collector: cw.Collector(), Metrics: &metrics.NullMetrics{}, routerType: rt}
	r.iopLogger = iopLogger{Logger: r.Logger, incomingOrPeer: rt.String()}
	return &verifRT{r: r, cw: cw, up: up, peer: peer, sh: sh, sr: sr, cfg: cfg}
}

func (v *verifRT) event(fields map[string]any, rate uint) *types.Event {
	return &types.Event{APIHost: "https://api.honeycomb.io", APIKey: "key1", Dataset: "ds1", Environment: "env", SampleRate: rate, Data: types.NewPayload(v.cfg, fields)}
}

// C19: every event takes exactly one route, chosen as documented.
func Harness_C19_C17_route() {
	zz.MustCover("(*github.com/honeycombio/refinery/route.Router).processEvent")
	v := verifNewRT(zz.NondetBool("incomingRouter"))
	if zz.NondetBool("ownerIsOther") {
		v.sh.owner = verifOther
	}
	// the collector's worker is deliberately not started: the span must still be in the queue the
	// router put it in when the harness looks (natively a running worker takes it at once)
	v.cw.SetNow(1000)
	hasTrace := zz.NondetBool("hasTraceID")
	isProbe := zz.NondetBool("isProbe")
	fields := map[string]any{"f": int64(7)}
	idFields := []string{"trace.trace_id", "traceId"}
	idx := zz.Choose("traceIDField", 2)
	if hasTrace {
		fields[idFields[idx]] = "T1"
	}
	if isProbe {
		fields["meta.refinery.probe"] = true
	}
	rate := zz.NondetUint("clientRate")
	zz.Assume(rate < 1<<31)
	ev := v.event(fields, rate)
	if zz.NondetBool("msgpackBody") {
		// the same event as it arrives in a msgpack batch, through the ingestion decoder; the other
		// configured trace-ID field may follow, empty (it must not erase the ID found first)
		emptyOther := zz.And(hasTrace, zz.NondetBool("emptyOtherIDField"))
		n := 1
		if hasTrace {
			n++
		}
		if emptyOther {
			n++
		}
		if isProbe {
			n++
		}
		b := msgp.AppendMapHeader(nil, uint32(n))
		b = msgp.AppendInt64(msgp.AppendString(b, "f"), 7)
		if hasTrace {
			b = msgp.AppendString(msgp.AppendString(b, idFields[idx]), "T1")
		}
		if emptyOther {
			b = msgp.AppendString(msgp.AppendString(b, idFields[1-idx]), "")
		}
		if isProbe {
			b = msgp.AppendBool(msgp.AppendString(b, "meta.refinery.probe"), true)
		}
		cu := types.NewCoreFieldsUnmarshaler(types.CoreFieldsUnmarshalerOptions{Config: v.cfg, APIKey: "key1", Env: "env", Dataset: "ds1"})
		p := types.NewPayload(v.cfg, nil)
		rest, derr := cu.UnmarshalMsgpFirstEvent(b, &p)
		zz.Assert(derr == nil && len(rest) == 0, "a well-formed msgpack event is decoded")
		ev.Data = p
	}
	err := v.r.processEvent(ev, "req")
	zz.Assert(err == nil, "a well-formed event is accepted")
	up, pr := v.up.count(ev), v.peer.count(ev)
	inq, peerq := v.cw.VerifQueueLens()
	local := inq + peerq
	zz.Assert(up+pr+local <= 1, "[C19] an event takes at most one route")
	switch {
	case isProbe:
		zz.Assert(up+pr+local == 0, "[C19,C16] a received probe is discarded")
	case !hasTrace:
		zz.Assert(up == 1, "[C19] an event without a trace ID goes straight upstream")
		zz.Assert(v.up.q[0].host == "https://api.honeycomb.io" && v.up.q[0].key == "key1" && v.up.q[0].dataset == "ds1" && v.up.q[0].rate == rate, "[C19] non-trace event forwarded unchanged")
	case v.sh.owner == verifOther:
		zz.Assert(pr == 1, "[C19,C17] a span owned by another node is forwarded to it")
		zz.Assert(v.peer.q[0].host == verifOther, "[C19,C17] forwarded to the owner's address, never to self")
		zz.Assert(ev.APIKey == "key1" && ev.Dataset == "ds1" && ev.SampleRate == rate, "[C19] forwarded span keeps API key, dataset and sample rate")
		zz.Assert(ev.Data.Get("f") == any(int64(7)), "[C19] forwarded span keeps its fields")
	default:
		zz.Assert(local == 1, "[C19,C17] a span this node owns goes to its collector")
		if v.r.routerType.IsIncoming() {
			zz.Assert(inq == 1, "[C19] incoming router uses the incoming queue")
		} else {
			zz.Assert(peerq == 1, "[C19] peer router uses the peer queue")
		}
	}
}

// C16: stress relief active: decision by the stress rule, recorded, delivered intact.
func Harness_C16_stress() {
	zz.MustCover("(*github.com/honeycombio/refinery/route.Router).processEvent",
		"(*github.com/honeycombio/refinery/collect.InMemCollector).ProcessSpanImmediately")
	v := verifNewRT(zz.NondetBool("incomingRouter"))
	if zz.NondetBool("ownerIsOther") {
		v.sh.owner = verifOther
	}
	v.sr.on = true
	v.sr.rate = zz.NondetUint("stressRate")
	zz.Assume(v.sr.rate >= 1)
	zz.Assume(v.sr.rate < 1<<31)
	v.sr.keep = zz.NondetBool("stressKeep")
	v.cw.Start(1000)
	client := zz.NondetUint("clientRate")
	zz.Assume(client < 1<<31)
	fields := map[string]any{"trace.trace_id": "T1", "f": int64(7)}
	receivedProbe := zz.NondetBool("receivedProbe")
	if receivedProbe {
		// a probe another (stressed) node sent to the trace's owner
		fields["meta.refinery.probe"] = true
	}
	ev := v.event(fields, client)
	zz.Assert(v.r.processEvent(ev, "req") == nil, "span accepted")
	up := v.up.count(ev)
	inq, peerq := v.cw.VerifQueueLens()
	zz.Assert(inq+peerq == 0, "[C16] a trace first seen under stress is not buffered")
	if receivedProbe {
		zz.Assert(up == 0 && len(v.up.q) == 0, "[C16] a received probe is never forwarded to Honeycomb, stressed or not")
		zz.Assert(len(v.peer.q) == 0, "[C16] a received probe is not passed on")
		return
	}
	eff := zz.IteUint(client < 1, 1, client)
	if v.sr.keep {
		zz.Assert(up == 1, "[C16] kept span forwarded to Honeycomb exactly once")
		zz.Assert(ev.Data.Get(types.MetaStressed) == any(true), "[C16] kept span is marked meta.stressed")
		zz.Assert(v.up.q[0].rate == eff*v.sr.rate, "[C16,C04] stress-relief span carries client rate x stress rate")
		// what the upstream transmission will read when it dispatches the batch
		zz.Assert(ev.APIHost == "https://api.honeycomb.io", "[C16] destination host of the queued span unaffected by the probe")
		zz.Assert(ev.APIKey == "key1" && ev.Dataset == "ds1", "[C16] API key and dataset of the queued span unaffected")
		zz.Assert(!(ev.Data.MetaRefineryProbe.HasValue && ev.Data.MetaRefineryProbe.Value), "[C16] the span queued for Honeycomb is not marked as a probe")
		if v.sh.owner == verifOther {
			zz.Assert(len(v.peer.q) == 1, "[C16] one probe goes to the owning peer")
			if len(v.peer.q) == 1 {
				zz.Assert(v.peer.q[0].probe, "[C16] what goes to the peer is marked as a probe")
				zz.Assert(v.peer.q[0].host == verifOther, "[C16] the probe goes to the owner")
			}
		} else {
			zz.Assert(len(v.peer.q) == 0, "[C16] no probe when this node owns the trace")
		}
	} else {
		zz.Assert(up == 0, "[C16] dropped span is not forwarded")
		zz.Assert(len(v.peer.q) == 0, "[C16] no probe for a dropped span")
	}
	for _, s := range v.up.q {
		zz.Assert(!s.probe, "[C16] no probe is ever queued for Honeycomb")
	}
	// relief ends; a later span of the same trace follows the remembered decision
	v.sr.on = false
	v.sh.owner = verifSelf
	client2 := zz.NondetUint("clientRate2")
	zz.Assume(client2 < 1<<31)
	ev2 := v.event(map[string]any{"trace.trace_id": "T1", "f": int64(8)}, client2)
	v.cw.SetNow(2000)
	zz.Assert(v.r.processEvent(ev2, "req2") == nil, "late span accepted")
	v.cw.Barrier()
	v.cw.Finish(1 << 42)
	zz.Assert(v.cw.Decisions("T1") == 0, "[C16,C01] the remembered stress decision is not made again by the trace sampler")
	if v.sr.keep {
		zz.Assert(v.up.count(ev2) == 1, "[C16] later span of a stress-kept trace is forwarded")
		eff2 := zz.IteUint(client2 < 1, 1, client2)
		zz.Assert(ev2.SampleRate == eff2*v.sr.rate, "[C16,C04] later span uses the rate recorded with the decision")
	} else {
		zz.Assert(v.up.count(ev2) == 0, "[C16] later span of a stress-dropped trace is dropped")
	}
}
