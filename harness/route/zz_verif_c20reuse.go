//go:build verif

package route

import (
	"net/http"
	"net/url"

	"github.com/gorilla/mux"
	"github.com/tinylib/msgp/msgp"

	"github.com/honeycombio/refinery/config"
	zz "github.com/honeycombio/refinery/internal/zzverif"
	"github.com/honeycombio/refinery/logger"
	"github.com/honeycombio/refinery/metrics"
	"github.com/honeycombio/refinery/types"
)

func verifBatchBody(trace string, f int64, s string, rate int64) []byte {
	body := msgp.AppendArrayHeader(nil, 1)
	body = msgp.AppendMapHeader(body, 2)
	body = msgp.AppendString(body, "samplerate")
	body = msgp.AppendInt64(body, rate)
	body = msgp.AppendString(body, "data")
	body = msgp.AppendMapHeader(body, 3)
	body = msgp.AppendString(body, "trace.trace_id")
	body = msgp.AppendString(body, trace)
	body = msgp.AppendString(body, "f")
	body = msgp.AppendInt64(body, f)
	body = msgp.AppendString(body, "s")
	body = msgp.AppendString(body, s)
	return body
}

// C20 (a buffered span does not share memory with the request it came in): two batch requests,
// one span each, go through the real batch handler one after the other; sync.Pool is modelled
// as handing back what was returned to it (zz.PoolReuse), so the second request's body is read into
// the buffer the first one used. After the second request the first span - still buffered in the
// collector - has exactly the trace ID, fields and values the first client sent, and the second
// span has the second client's.
func Harness_C20_buffer_reuse() {
	zz.MustCover("(*github.com/honeycombio/refinery/route.Router).batch",
		"(*github.com/honeycombio/refinery/route.batchedEvents).UnmarshalMsg")
	zz.PoolReuse()
	zz.Bound("requests", 2)
	zz.Bound("events_per_request", 1)
	zz.Bound("string_len", 2)
	cfg := &config.MockConfig{GetHoneycombAPIVal: "https://api.honeycomb.io", TraceIdFieldNames: []string{"trace.trace_id"}, ParentIdFieldNames: []string{"trace.parent_id"}}
	coll := &verifAdmitCollector{}
	up, peer := &verifRecTx{}, &verifRecTx{}
	r := &Router{Config: cfg, Logger: &logger.NullLogger{}, UpstreamTransmission: up, PeerTransmission: peer, Sharder: &verifSharder{self: verifSelf, owner: verifSelf},
		Collector: coll, Metrics: &metrics.NullMetrics{}, routerType: types.RouterTypeIncoming}
	r.iopLogger = iopLogger{Logger: r.Logger, incomingOrPeer: "incoming"}
	r.environmentCache = newEnvironmentCache(1e9, func(string) (authData, error) { return authData{environment: "env"}, nil })

	f1, f2 := zz.NondetInt64("f1"), zz.NondetInt64("f2")
	s1, s2 := zz.NondetStringN("s1", 2), zz.NondetStringN("s2", 2)
	send := func(body []byte) int {
		req := &http.Request{Method: "POST", URL: &url.URL{Path: "/1/batch/x"}, Header: http.Header{"Content-Type": {"application/msgpack"}, "X-Honeycomb-Team": {verifClassic}},
			Body: &verifBody{data: body}}
		req = mux.SetURLVars(req, map[string]string{"datasetName": "ds1"})
		rw := newVerifRW()
		r.batch(rw, req)
		return rw.status
	}
	st1 := send(verifBatchBody("T1", f1, s1, 2))
	st2 := send(verifBatchBody("T2", f2, s2, 3))
	zz.Assert(st1 == 200 && st2 == 200, "both requests are accepted")
	zz.Assert(len(coll.spans) == 2, "both spans reach the collector")
	if len(coll.spans) != 2 {
		return
	}
	a, b := coll.spans[0], coll.spans[1]
	zz.Assert(a.TraceID == "T1" && b.TraceID == "T2", "each span keeps its own trace ID")
	zz.Assert(a.Data.Get("f") == any(f1), "the first span's integer field is what its client sent, after a later request reused the body buffer")
	zz.Assert(a.Data.Get("s") == any(s1), "the first span's string field is what its client sent, after a later request reused the body buffer")
	zz.Assert(a.Data.Get("trace.trace_id") == any("T1"), "the first span's trace-ID field is unchanged")
	zz.Assert(b.Data.Get("f") == any(f2), "the second span's integer field is what its client sent")
	zz.Assert(b.Data.Get("s") == any(s2), "the second span's string field is what its client sent")
	out, err := a.Data.MarshalMsg(nil)
	zz.Assert(err == nil, "the first span still serialises")
	var back types.Payload
	if err == nil {
		back = types.NewPayload(cfg, nil)
		_, err = back.UnmarshalMsg(out)
		zz.Assert(err == nil, "and what it serialises to decodes")
		if err == nil {
			zz.Assert(back.Get("f") == any(f1) && back.Get("s") == any(s1), "the forwarded first span carries the first client's values")
		}
	}
}
