//go:build verif

package route

import (
	"net/http"
	"net/url"

	"github.com/honeycombio/refinery/config"
	zz "github.com/honeycombio/refinery/internal/zzverif"
	"github.com/honeycombio/refinery/logger"
	"github.com/honeycombio/refinery/metrics"
	"github.com/honeycombio/refinery/types"
)

const verifListedKey = "hcaik_listedlistedlistedlistedlistedlistedlistedlistedlistedlisted0"
const verifUnlistedKey = "hcaik_unlistedunlistedunlistedunlistedunlistedunlistedunlistedunl1"

// C24 (HTTP /1/ middleware): the real apiKeyProcessor for every SendKeyMode x AcceptOnlyListedKeys x
// SendKey set/unset x ReceiveKeyIDs configured or not x client key {blank, SendKey, listed, listed by
// key ID (looked up through the environment cache), unlisted}: the request reaches the handler iff
// the key is acceptable, and then with exactly the key the SendKeyMode table prescribes, never blank.
func Harness_C24_middleware() {
	zz.MustCover("(*github.com/honeycombio/refinery/route.Router).apiKeyProcessor$1",
		"(*github.com/honeycombio/refinery/config.AccessKeyConfig).GetReplaceKey",
		"(*github.com/honeycombio/refinery/route.Router).getKeyID")
	modes := []string{"none", "all", "nonblank", "listedonly", "missingonly", "unlisted"}
	mode := modes[zz.Choose("mode", len(modes))]
	only := zz.NondetBool("acceptOnlyListed")
	send := []string{"", "hcaik_sendsendsendsendsendsendsendsendsendsendsendsendsendsendsend1"}[zz.Choose("sendKeyConfigured", 2)]
	withIDs := zz.NondetBool("receiveKeyIDsConfigured")
	acc := config.AccessKeyConfig{ReceiveKeys: []string{verifListedKey}, SendKey: send, SendKeyMode: mode, AcceptOnlyListedKeys: only}
	if withIDs {
		acc.ReceiveKeyIDs = []string{"id1"}
	}
	clientKeys := []string{"", send, verifListedKey, verifEnvKey, verifUnlistedKey}
	ck := zz.Choose("clientKey", len(clientKeys))
	key := clientKeys[ck]
	cfg := &config.MockConfig{GetAccessKeyConfigVal: acc}
	r := &Router{Config: cfg, Logger: &logger.NullLogger{}, Metrics: &metrics.NullMetrics{}}
	r.environmentCache = newEnvironmentCache(1e9, func(k string) (authData, error) {
		if k == verifEnvKey {
			return authData{environment: "env", keyID: "id1"}, nil
		}
		return authData{environment: "env", keyID: "other"}, nil
	})
	ran := 0
	gotKey := ""
	next := http.HandlerFunc(func(w http.ResponseWriter, req *http.Request) {
		ran++
		gotKey = req.Header.Get(types.APIKeyHeader)
	})
	req := &http.Request{Method: "POST", URL: &url.URL{Path: "/1/batch/ds"}, Header: http.Header{}}
	if key != "" {
		req.Header[types.APIKeyHeader] = []string{key}
	}
	rw := newVerifRW()
	r.apiKeyProcessor(next).ServeHTTP(rw, req)

	listed := key == verifListedKey || (withIDs && key == verifEnvKey)
	accepted := !only || (send != "" && key == send) || listed
	want := key
	if send != "" {
		switch mode {
		case "all":
			want = send
		case "nonblank":
			if key != "" {
				want = send
			}
		case "listedonly":
			if listed {
				want = send
			}
		case "missingonly":
			if key == "" {
				want = send
			}
		case "unlisted":
			if key != "" && !listed {
				want = send
			}
		}
	}
	if accepted && want != "" {
		zz.Assert(ran == 1, "an acceptable key reaches the handler")
		zz.Assert(gotKey == want, "data is processed with the key the SendKeyMode table prescribes")
		zz.Assert(gotKey != "", "never with a blank key")
		zz.Assert(rw.headerCalls == 0, "no error response")
	} else {
		zz.Assert(ran == 0, "an unacceptable (or blank, unreplaced) key does not reach the handler")
		zz.Assert(rw.status >= 400 && rw.writes == 1, "and gets exactly one error response")
	}
}
