//go:build verif

package route

import (
	"net/http"
)

// verifRW records what a handler wrote: status of the first WriteHeader-or-Write,
// number of WriteHeader calls, writes after the first status, and the body.
type verifRW struct {
	hdr         http.Header
	status      int
	headerCalls int
	writes      int
	body        []byte
}

func newVerifRW() *verifRW { return &verifRW{hdr: http.Header{}} }

func (w *verifRW) Header() http.Header { return w.hdr }
func (w *verifRW) WriteHeader(code int) {
	w.headerCalls++
	if w.status == 0 {
		w.status = code
	}
}
func (w *verifRW) Write(b []byte) (int, error) {
	if w.status == 0 {
		w.status = 200
	}
	w.writes++
	w.body = append(w.body, b...)
	return len(b), nil
}
