//go:build verif

package route

import (
	"github.com/honeycombio/refinery/config"
	zz "github.com/honeycombio/refinery/internal/zzverif"
	"github.com/honeycombio/refinery/types"
)

// C28 (msgpack batch bodies): any byte string of up to 5 bytes (thorough 6) as the body of a msgpack
// batch request goes through the batch decoder without a panic and without asking the allocator
// for an amount of memory no deployment has (an element count taken from the client's array header).
func Harness_C28_batch_msgpack() {
	zz.MustCover("(*github.com/honeycombio/refinery/route.batchedEvents).UnmarshalMsg")
	maxN := 5
	if zz.Thorough() {
		maxN = 6
	}
	zz.Bound("body_len", maxN)
	n := []int{0, 1, 3, 5, 6}[zz.Choose("len", maxN-1)]
	in := zz.NondetBytes("body", n)
	cfg := &config.MockConfig{TraceIdFieldNames: []string{"t"}, ParentIdFieldNames: []string{"p"}}
	b := newBatchedEvents(types.CoreFieldsUnmarshalerOptions{Config: cfg, APIKey: "k", Env: "env", Dataset: "d"})
	rest, err := b.UnmarshalMsg(in)
	zz.Observe("accepted", err == nil)
	if err == nil {
		zz.Assert(len(rest) <= n, "the decoder consumes a prefix of the body")
		zz.Assert(len(b.events) <= n, "every decoded event took at least one byte of the body")
	}
}
