//go:build verif

package route

import (
	"context"
	"encoding/json"
	"errors"
	"io"
	"net/http"
	"net/url"

	"github.com/gorilla/mux"
	huskyotlp "github.com/honeycombio/husky/otlp"
	"github.com/tinylib/msgp/msgp"

	"github.com/honeycombio/refinery/collect"
	"github.com/honeycombio/refinery/config"
	zz "github.com/honeycombio/refinery/internal/zzverif"
	"github.com/honeycombio/refinery/logger"
	"github.com/honeycombio/refinery/metrics"
	"github.com/honeycombio/refinery/types"
)

// ---- engine-side model of json.Marshal for the batch response (reflection is outside reach):
// it records its argument; natively the harness parses the real JSON body instead.
var verifJSONArg any

//verif:model encoding/json.Marshal
func verifJSONMarshal(v any) ([]byte, error) {
	verifJSONArg = v
	return []byte("J"), nil
}

// fake collector: per-call admission result chosen by the harness
type verifAdmitCollector struct {
	block []bool
	calls int
	spans []*types.Span
}

func (c *verifAdmitCollector) add(sp *types.Span) error {
	i := c.calls
	c.calls++
	if i < len(c.block) && c.block[i] {
		return collect.ErrWouldBlock
	}
	c.spans = append(c.spans, sp)
	return nil
}
func (c *verifAdmitCollector) AddSpan(sp *types.Span) error         { return c.add(sp) }
func (c *verifAdmitCollector) AddSpanFromPeer(sp *types.Span) error { return c.add(sp) }
func (c *verifAdmitCollector) Stressed() bool                       { return false }
func (c *verifAdmitCollector) GetStressedSampleRate(string) (uint, bool, string) {
	return 1, true, ""
}
func (c *verifAdmitCollector) ProcessSpanImmediately(*types.Span) (bool, bool) { return false, false }

type verifBody struct {
	data []byte
	pos  int
	fail bool
}

func (b *verifBody) Read(p []byte) (int, error) {
	if b.fail {
		return 0, errors.New("connection reset")
	}
	if b.pos >= len(b.data) {
		return 0, io.EOF
	}
	n := copy(p, b.data[b.pos:])
	b.pos += n
	return n, nil
}
func (b *verifBody) Close() error { return nil }

const verifEnvKey = "hcaik_0123456789abcdefghijklmnopqrstuvwxyz0123456789abcdefghijkl"
const verifClassic = "0123456789abcdef0123456789abcdef"

func verifStatuses(rw *verifRW) []int {
	var out []int
	if zz.InEngine() {
		if rs, ok := verifJSONArg.([]*BatchResponse); ok {
			for _, r := range rs {
				out = append(out, r.Status)
			}
		}
		return out
	}
	var rs []BatchResponse
	// the success body is the last JSON array in what was written
	body := rw.body
	for i := len(body) - 1; i >= 0; i-- {
		if body[i] == '[' {
			body = body[i:]
			break
		}
	}
	if json.Unmarshal(body, &rs) == nil {
		for _, r := range rs {
			out = append(out, r.Status)
		}
	}
	return out
}

// C23 (batch endpoint): the real batch handler on a msgpack body of 0..2 events, with every
// combination of the faults a request can carry: dataset name (ok / bad escape / missing), body
// read error, truncated body, environment lookup (classic key: none / ok / error), empty event
// data, per-event admission (accepted / queue full).
func Harness_C23_batch() {
	zz.MustCover("(*github.com/honeycombio/refinery/route.Router).batch",
		"(*github.com/honeycombio/refinery/route.batchedEvents).UnmarshalMsg",
		"(*github.com/honeycombio/refinery/route.Router).processEvent",
		"(*github.com/honeycombio/refinery/route.Router).handlerReturnWithError")
	zz.Bound("events", 2)
	cfg := &config.MockConfig{GetHoneycombAPIVal: "https://api.honeycomb.io", TraceIdFieldNames: []string{"trace.trace_id"}, ParentIdFieldNames: []string{"trace.parent_id"}}
	coll := &verifAdmitCollector{}
	up, peer := &verifRecTx{}, &verifRecTx{}
	r := &Router{Config: cfg, Logger: &logger.NullLogger{}, UpstreamTransmission: up, PeerTransmission: peer, Sharder: &verifSharder{self: verifSelf, owner: verifSelf},
		Collector: coll, Metrics: &metrics.NullMetrics{}, routerType: types.RouterTypeIncoming}
	r.iopLogger = iopLogger{Logger: r.Logger, incomingOrPeer: "incoming"}
	lookupFails := false
	r.environmentCache = newEnvironmentCache(1e9, func(string) (authData, error) {
		if lookupFails {
			return authData{}, errors.New("auth endpoint unavailable")
		}
		return authData{environment: "env"}, nil
	})

	dsCase := zz.Choose("dataset", 3)
	dataset := []string{"ds1", "%zz", ""}[dsCase]
	keyCase := zz.Choose("apiKey", 3)
	apiKey := verifClassic
	if keyCase > 0 {
		apiKey = verifEnvKey
		lookupFails = keyCase == 2
	}
	n := zz.Choose("events", 3)
	body := msgp.AppendArrayHeader(nil, uint32(n))
	var empty, hasTrace [2]bool
	for i := 0; i < n; i++ {
		empty[i] = zz.NondetBool("emptyData")
		hasTrace[i] = zz.NondetBool("hasTraceID")
		coll.block = append(coll.block, zz.NondetBool("queueFull"))
		body = msgp.AppendMapHeader(body, 2)
		body = msgp.AppendString(body, "samplerate")
		body = msgp.AppendInt64(body, 2)
		body = msgp.AppendString(body, "data")
		if empty[i] {
			body = msgp.AppendMapHeader(body, 0)
		} else if hasTrace[i] {
			body = msgp.AppendMapHeader(body, 2)
			body = msgp.AppendString(body, "trace.trace_id")
			body = msgp.AppendString(body, "T1")
			body = msgp.AppendString(body, "f")
			body = msgp.AppendInt64(body, 300)
		} else {
			body = msgp.AppendMapHeader(body, 1)
			body = msgp.AppendString(body, "f")
			body = msgp.AppendInt64(body, 300)
		}
	}
	truncated := false
	if n > 0 {
		truncated = zz.NondetBool("truncatedBody")
		if truncated {
			body = body[:len(body)-1]
		}
	}
	readFails := zz.NondetBool("bodyReadFails")
	req := &http.Request{Method: "POST", URL: &url.URL{Path: "/1/batch/x"}, Header: http.Header{"Content-Type": {"application/msgpack"}, "X-Honeycomb-Team": {apiKey}},
		Body: &verifBody{data: body, fail: readFails}}
	req = mux.SetURLVars(req, map[string]string{"datasetName": dataset})
	rw := newVerifRW()
	r.batch(rw, req)

	processed := len(coll.spans) + len(up.q) + len(peer.q)
	requestError := readFails || dsCase != 0 || keyCase == 2 || truncated
	zz.Assert(rw.status != 0, "the request gets a response")
	if requestError {
		zz.Assert(rw.status >= 400, "a request that cannot be processed gets an error status")
		zz.Assert(rw.writes == 1, "exactly one response body (no second write after the error response)")
		zz.Assert(processed == 0, "no event of a request answered with an error is processed")
		zz.Assert(coll.calls == 0, "no event of a request answered with an error is offered to the collector")
	} else {
		zz.Assert(rw.status == 200, "a processed batch gets a success status")
		zz.Assert(rw.writes == 1, "exactly one response body")
		st := verifStatuses(rw)
		zz.Assert(len(st) == n, "one status per event, in request order")
		ci := 0
		for i := 0; i < n && i < len(st); i++ {
			switch {
			case empty[i]:
				zz.Assert(st[i] == 400, "an event without data is answered 400")
			case hasTrace[i]:
				if coll.block[ci] {
					zz.Assert(st[i] == 429, "a span refused by a full queue is answered 429")
				} else {
					zz.Assert(st[i] == 202, "an accepted span is answered 202")
				}
				ci++
			default:
				zz.Assert(st[i] == 202, "a non-trace event forwarded upstream is answered 202")
			}
		}
		want := 0
		ci = 0
		for i := 0; i < n; i++ {
			if empty[i] {
				continue
			}
			if hasTrace[i] {
				if !coll.block[ci] {
					want++
				}
				ci++
			} else {
				want++
			}
		}
		zz.Assert(processed == want, "every well-formed, admitted event was processed (none silently discarded)")
	}
}

// C23 (OTLP processing step): processOTLPRequest on 1..2 translated events: if the environment
// lookup fails nothing is processed and the caller is told (so it cannot answer success);
// otherwise every event is processed exactly once.
func Harness_C23_otlp() {
	zz.MustCover("(*github.com/honeycombio/refinery/route.Router).processOTLPRequest")
	cfg := &config.MockConfig{GetHoneycombAPIVal: "https://api.honeycomb.io", TraceIdFieldNames: []string{"trace.trace_id"}, ParentIdFieldNames: []string{"trace.parent_id"}}
	coll := &verifAdmitCollector{}
	up, peer := &verifRecTx{}, &verifRecTx{}
	r := &Router{Config: cfg, Logger: &logger.NullLogger{}, UpstreamTransmission: up, PeerTransmission: peer, Sharder: &verifSharder{self: verifSelf, owner: verifSelf},
		Collector: coll, Metrics: &metrics.NullMetrics{}, routerType: types.RouterTypeIncoming}
	r.iopLogger = iopLogger{Logger: r.Logger, incomingOrPeer: "incoming"}
	lookupFails := zz.NondetBool("lookupFails")
	r.environmentCache = newEnvironmentCache(1e9, func(string) (authData, error) {
		if lookupFails {
			return authData{}, errors.New("auth endpoint unavailable")
		}
		return authData{environment: "env"}, nil
	})
	classic := zz.NondetBool("classicKey")
	apiKey := verifEnvKey
	if classic {
		apiKey = verifClassic
	}
	n := 1 + zz.Choose("events", 2)
	var evs []huskyotlp.Event
	for i := 0; i < n; i++ {
		evs = append(evs, huskyotlp.Event{Attributes: map[string]interface{}{"trace.trace_id": "T1", "f": int64(1)}, SampleRate: 1})
	}
	err := r.processOTLPRequest(context.Background(), []huskyotlp.Batch{{Dataset: "ds", Events: evs}}, apiKey, "ua")
	if lookupFails && !classic {
		zz.Assert(err != nil, "a failed environment lookup is reported to the caller (no success response)")
		zz.Assert(coll.calls == 0, "and nothing is processed")
	} else {
		zz.Assert(err == nil, "processed")
		zz.Assert(len(coll.spans) == n, "every event processed exactly once")
	}
}
