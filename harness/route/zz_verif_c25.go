//go:build verif

package route

import (
	"net/http"

	"github.com/honeycombio/refinery/config"
	zz "github.com/honeycombio/refinery/internal/zzverif"
	"github.com/honeycombio/refinery/logger"
	"github.com/honeycombio/refinery/types"
)

// C25: next runs iff a non-empty token is configured and the presented token is byte-equal;
// otherwise exactly one error response and no handler output. Tokens: all strings of <= 3 bytes.
func Harness_C25_token() {
	zz.MustCover("(*github.com/honeycombio/refinery/route.Router).queryTokenChecker$1")
	maxTok := 3
	if zz.Thorough() {
		maxTok = 5
	}
	zz.Bound("token_len_max", maxTok)
	cfgTok := zz.NondetString("configured", maxTok)
	reqTok := zz.NondetString("presented", maxTok)
	present := zz.NondetBool("headerPresent")
	r := &Router{Config: &config.MockConfig{QueryAuthToken: cfgTok}, Logger: &logger.NullLogger{}}
	ran := 0
	next := http.HandlerFunc(func(w http.ResponseWriter, req *http.Request) {
		ran++
		w.Write([]byte("data"))
	})
	req := &http.Request{Method: "GET", Header: http.Header{}}
	if present {
		req.Header[types.QueryTokenHeader] = []string{reqTok}
	}
	rw := newVerifRW()
	r.queryTokenChecker(next).ServeHTTP(rw, req)
	authorized := zz.And(cfgTok != "", zz.And(present, reqTok == cfgTok))
	zz.Observe("ran", ran)
	zz.Assert((ran == 1) == authorized, "handler runs iff a non-empty configured token is presented exactly")
	zz.Assert(ran <= 1, "handler runs at most once")
	if ran == 0 {
		zz.Assert(rw.status >= 400, "unauthorized request gets an error status")
		zz.Assert(rw.headerCalls == 1, "exactly one error response")
		zz.Assert(rw.writes == 1, "one error body")
	} else {
		zz.Assert(rw.headerCalls == 0, "no error response when authorized")
		zz.Assert(string(rw.body) == "data", "only the handler's output is returned")
	}
}
