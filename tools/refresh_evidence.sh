#!/bin/bash
# tools/refresh_evidence.sh [ids...]: runs the quick tier of every registered check on /repo (which
# must be clean) so that /verif/evidence/*.json all come from runs against the committed tree.
cd /verif
if ! git -C /repo diff --quiet; then echo "/repo has uncommitted changes"; exit 2; fi
ids="$@"
[ -z "$ids" ] && ids=$(python3 -c "import json;print(' '.join(c['property_id'] for c in json.load(open('MANIFEST.json'))['checks']))")
rc=0
for id in $ids; do
  t0=$(date +%s)
  ./check $id --tier quick > /tmp/refresh_$id.log 2>&1
  ec=$?
  t1=$(date +%s)
  echo "$id exit=$ec wall=$((t1-t0))s $(grep -E '^(KNOWN-FINDING)' /tmp/refresh_$id.log | cut -c1-60)"
  [ $ec -ne 0 ] && { rc=1; grep -E "^(VIOLATION|INCONCLUSIVE)" /tmp/refresh_$id.log | cut -c1-250 | head -3; }
done
exit $rc
