#!/usr/bin/env python3
"""Prints the markdown table of seeded changes from /verif/seeded/*/meta.json and splices
tools/design_status.md into DESIGN.md (between the title and section 0)."""
import json, os, re, sys
HERE = os.path.dirname(os.path.dirname(os.path.abspath(__file__)))

def short(t, n=220):
    return t if len(t) <= n else t[:n].rsplit(' ', 1)[0] + ' …'

def table():
    rows = ["| seed | property | changed file(s) | needs, to manifest | outcome of `./check <property> --tier quick` on the changed tree |", "|---|---|---|---|---|"]
    for name in sorted(os.listdir(os.path.join(HERE, 'seeded'))):
        d = os.path.join(HERE, 'seeded', name)
        mp = os.path.join(d, 'meta.json')
        if not os.path.exists(mp):
            continue
        m = json.load(open(mp))
        files = sorted(set(re.findall(r'^\+\+\+ b/(\S+)', open(os.path.join(d, 'patch.diff')).read(), re.M)))
        needs = short(m.get("needs_to_manifest", "")).replace('|', '/').replace('\n', ' ')
        det = m.get('detected_by', '').replace('|', '/').replace('\n', ' ')
        rows.append("| %s | %s | %s | %s | %s |" % (name, m['property'], ', '.join('`%s`' % f for f in files), needs, det))
    return '\n'.join(rows)

def main():
    t = table()
    if len(sys.argv) > 1 and sys.argv[1] == '--table':
        print(t)
        return
    status = open(os.path.join(HERE, 'tools', 'design_status.md')).read().replace('SEED_TABLE', t)
    dp = os.path.join(HERE, 'DESIGN.md')
    s = open(dp).read()
    title = s.split('\n', 1)[0]
    i = s.index('## 0. One-paragraph summary')
    open(dp, 'w').write(title + '\n\n' + status + '\n' + s[i:])
    print("DESIGN.md updated (%d seeds)" % (len(t.split('\n')) - 2))

if __name__ == '__main__':
    main()
