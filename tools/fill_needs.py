#!/usr/bin/env python3
"""Copies the 'what is needed for it to manifest' section of each seed's README into meta.json."""
import json, os, re
HERE = os.path.dirname(os.path.dirname(os.path.abspath(__file__)))
for name in sorted(os.listdir(os.path.join(HERE, 'seeded'))):
    d = os.path.join(HERE, 'seeded', name)
    mp, rp = os.path.join(d, 'meta.json'), os.path.join(d, 'README.agent.md')
    if not (os.path.exists(mp) and os.path.exists(rp)):
        continue
    m = json.load(open(mp))
    lines = open(rp).read().split('\n')
    start = None
    for i, l in enumerate(lines):
        if l.startswith('#') and re.search(r'manifest|trigger', l, re.I) and i > 0:
            start = i
            break
    if start is None:
        continue
    body = []
    for l in lines[start + 1:]:
        if l.startswith('#'):
            break
        body.append(l.strip())
    text = re.sub(r'\s+', ' ', ' '.join(body)).strip()
    if len(text) > 700:
        text = text[:700].rsplit(' ', 1)[0] + ' …'
    m['needs_to_manifest'] = text
    json.dump(m, open(mp, 'w'), indent=1)
    print(name, len(text))
