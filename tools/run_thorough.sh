#!/bin/bash
# tools/run_thorough.sh [ids...]: runs the thorough tier of each check on /repo into a scratch
# directory (evidence in /verif is not touched) and logs exit code and wall time.
cd /verif
ids="$@"
[ -z "$ids" ] && ids=$(python3 -c "import json;print(' '.join(c['property_id'] for c in json.load(open('MANIFEST.json'))['checks']))")
mkdir -p /tmp/thorough
for id in $ids; do
  t0=$(date +%s)
  SSASYM_SCRATCH=/tmp/thorough ./check $id --tier thorough > /tmp/thorough/$id.log 2>&1
  ec=$?
  t1=$(date +%s)
  echo "$id exit=$ec wall=$((t1-t0))s $(grep -E '^C[0-9]+ tier' /tmp/thorough/$id.log | cut -c1-160)"
  grep -E "^(VIOLATION|INCONCLUSIVE)" /tmp/thorough/$id.log | cut -c1-250 | head -3
done
