#!/bin/bash
# tools/run_seeds.sh [seed-dir-name ...]: runs the quick check of each seeded change's property
# against a scratch worktree of /repo with the change applied (never /repo itself), PAR at a time,
# and records the outcome in /verif/seeded/<name>/meta.json ("detected_by") and detection.txt.
# Scratch worktrees and outputs live under /tmp and are removed afterwards.
cd /verif
PAR=${PAR:-3}
J=${J:-8}
names="$@"
[ -z "$names" ] && names=$(ls seeded)
run_one() {
  name=$1
  d=/verif/seeded/$name
  id=$(python3 -c "import json;print(json.load(open('$d/meta.json'))['property'])")
  wt=/tmp/wt/seedrun-$name
  sc=/tmp/seedrun/$name
  rm -rf $sc; mkdir -p $sc
  git -C /repo worktree remove --force $wt 2>/dev/null
  git -C /repo worktree add -q --detach $wt HEAD || { echo "$name: worktree failed"; return; }
  if ! git -C $wt apply $d/patch.diff 2>$sc/apply.err; then
    echo "$name ($id): PATCH DOES NOT APPLY to the current tree" | tee $d/detection.txt
    git -C /repo worktree remove --force $wt; return
  fi
  t0=$(date +%s)
  SSASYM_REPO=$wt SSASYM_SCRATCH=$sc ./check $id --tier quick -j $J > $sc/log.txt 2>&1
  ec=$?
  t1=$(date +%s)
  {
    echo "seed=$name property=$id exit=$ec wall=$((t1-t0))s (quick tier, scratch worktree of /repo HEAD $(git -C /repo log --format=%h -1) + patch.diff)"
    grep -E "^(VIOLATION|KNOWN-FINDING|INCONCLUSIVE|NOTE)" $sc/log.txt | sed "s#$sc#<scratch>#g" | cut -c1-300 | head -6
  } > $d/detection.txt
  python3 - "$d" "$ec" <<'PY'
import json,sys,re
d,ec=sys.argv[1],int(sys.argv[2])
m=json.load(open(d+'/meta.json'))
lines=open(d+'/detection.txt').read().splitlines()
v=[l for l in lines if l.startswith('VIOLATION')]
hs=sorted(set(re.findall(r'\[(Harness_\w+)\]',' '.join(v))))
if ec==1 and v:
    m['detected_by']="./check %s --tier quick: exit 1, reproduced natively; harness(es) %s; first: %s"%(m['property'],', '.join(hs),v[0].split('#',1)[-1].strip()[:200])
elif ec==0:
    m['detected_by']="NOT DETECTED by ./check %s --tier quick (exit 0)"%m['property']
else:
    m['detected_by']="inconclusive: ./check %s --tier quick exit %d (see detection.txt)"%(m['property'],ec)
json.dump(m,open(d+'/meta.json','w'),indent=1)
PY
  head -1 $d/detection.txt
  git -C /repo worktree remove --force $wt
  rm -rf $sc
}
export -f run_one
export J
echo $names | tr ' ' '\n' | xargs -P $PAR -I{} bash -c 'run_one {}'
git -C /repo worktree prune
