# property id -> (design section, claim text, level note)
CLAIMED = {
 "C04": ("§4 C04",
  "For every client rate in [0,2^31), trace rate in [1,2^31) and both modes, the real mergeTraceAndSpanSampleRates produces SampleRate, meta.refinery.final_sample_rate and original_sample_rate exactly as the statement says; decided per path by z3 on the SSA of the real function and the real Payload.Set/Get.",
  "Bounds: rates below 2^31 (as in the statement). Outside: dynsampler-internal rate computation."),
}
