# property id -> (design section, claim text, level note)
CLAIMED = {
 "C04": ("§4 C04",
  "For every client rate in [0,2^31), trace rate in [1,2^31) and both modes, the real mergeTraceAndSpanSampleRates produces SampleRate, meta.refinery.final_sample_rate and original_sample_rate exactly as the statement says; decided per path by z3 on the SSA of the real function and the real Payload.Set/Get.",
  "Bounds: rates below 2^31 (as in the statement). Outside: dynsampler-internal rate computation."),
 "C10": ("§4 C10",
  "For every rate (deterministic: 0..2^31, stress relief: 0..2^64-1) and every trace ID, with sha1/wyhash as uninterpreted functions of the ID: keep iff hash <= floor(MAX/N), threshold exactly floor(MAX/N), rate<=1 keeps all, decision a function of (ID, rate) only, nesting (kept at N => kept at every M<=N; the symbolic-division obligation is discharged by cvc5 --solve-bv-as-int), and Start/UpdateFromConfig never panic.",
  "Bounds: trace IDs of 2 symbolic bytes (the hash is a UF of the bytes, so length only matters through the UF arity). Outside: uniformity of sha1/wyhash over random IDs — the 'kept fraction 1/N' clause is reduced to the exact size of the acceptance set floor(MAX/N)+1."),
 "C32": ("§4 C32",
  "For every sequence of <=3 (thorough 4) adds/removes on 2 keys at arbitrary non-decreasing instants, any TTL in [0,2^40) ns and an arbitrary later query instant (the exact expiry instant is just one value of it): Contains/Members/Length (set) and Get/Keys/Values/Length (map) agree and an item is present iff the instant is within TTL of its latest add, on the real SetWithTTL/MapWithTTL code with a symbolic clock.",
  "Bounds: 2 keys, 3/4 operations, instants and TTL below 2^40 ns. time.Time.Add on monotonic instants is modelled as ext+=d (no overflow inside the bounds). Outside: concurrent callers (mutexes are modelled, goroutines are not run)."),
 "C14": ("§4 C14",
  "IsLegacyAPIKey agrees with the documented key shapes for every string of the decisive lengths (0..8, 31..33, 63..65 bytes, all bytes symbolic); DetermineSamplerKey, GetSamplerConfigForDestName and GetSamplingKeyFieldsForDestName select the sampler the statement names (named, else __default__, else none) and the ingestion-time and decision-time selections coincide, for every environment/dataset/prefix/sampler name of <=3 symbolic bytes and each API-key class.",
  "Bounds: names <= 3 bytes, one named sampler + optional __default__, five key classes. Outside: YAML loading of the rules file."),
 "C25": ("§4 C25",
  "For every configured and presented token of <= 3 symbolic bytes (and header absent): the real queryTokenChecker runs the wrapped handler iff a non-empty token is configured and presented byte-exactly; otherwise exactly one error response and none of the handler's output.",
  "Bounds: tokens <= 3 bytes. net/http header canonicalisation executed from source. Outside: that every /query/ route is mounted behind the checker (gorilla/mux routing table is not encoded)."),
}
