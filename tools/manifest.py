#!/usr/bin/env python3
"""Regenerates /verif/MANIFEST.json from the tables below and validates it."""
import json, os, subprocess, sys

HERE = os.path.dirname(os.path.dirname(os.path.abspath(__file__)))
BASELINE = json.load(open('/root/.vp/BASELINE.json'))

TECH = "bounded symbolic execution of the real Go code (go/ssa -> SMT-LIB2, z3/cvc5), counterexamples replayed natively"
TRUST = ("Trusted: go/ssa as source semantics; the engine's instruction semantics and the listed models/intrinsics "
         "(cross-validated each run by replaying solver witnesses of explored paths against the natively compiled harness); z3 4.8.12 with "
         "z3 5.1/cvc5 fallbacks (sample of discharged queries re-asked to cvc5 each run). Cooperative goroutine model: goroutines switch at blocking operations, plus bounded preemption at mutex releases / sync.Map operations where a harness asks for it (C12, C33); no preemption between arbitrary instructions. ")

# property id -> (design section, claim text, level note: bounds + models + outside)
CLAIMED = {
}

NOT_APPLICABLE = {
    "C29": "Precedence and ${VAR} expansion are implemented with reflect, struct tags, go-flags, defaults, YAML and regexp; none of it is integer/struct code an SSA->SMT encoder can execute, and modelling those libraries would leave nothing of the property to check.",
    "C35": "Absence of data races is a happens-before property of the Go memory model over real goroutines; a sequential symbolic executor with cooperative goroutines has no sound bounded encoding of it for this code base.",
    "C36": "Shutdown ordering, draining and goroutine termination live in startstop, channels closing under running goroutines and real HTTP flushes; the deciding behaviour is which goroutines still run, which the engine deliberately does not model.",
    "C38": "The converter is text/template + YAML/TOML (un)marshalling + reflection-driven metadata; not encodable, and 'every valid v1 file' has no bounded symbolic representation here.",
}

ALL = ["C%02d" % i for i in range(1, 39)]


def main():
    sys.path.insert(0, os.path.join(HERE, 'tools'))
    try:
        import claims
        CLAIMED.update(claims.CLAIMED)
    except ImportError:
        pass
    checks = []
    for pid in ALL:
        if pid not in CLAIMED:
            continue
        sec, text, note = CLAIMED[pid]
        checks.append({
            "property_id": pid,
            "quick_cmd": "./check %s --tier quick" % pid,
            "thorough_cmd": "./check %s --tier thorough" % pid,
            "evidence_file": "/verif/evidence/%s.json" % pid,
            "replay_cmd_template": "./check %s --replay {path}" % pid,
            "engine": "ssasym",
            "level_claimed": {"category": "model_checking", "text": text, "design_ref": "DESIGN.md " + sec},
            "level_note": TRUST + note,
            "technique": TECH,
        })
    na = []
    for pid in ALL:
        if pid in CLAIMED:
            continue
        reason = NOT_APPLICABLE.get(pid, "harness family for this property not finished in this round; not claimed rather than claimed thinly (see DESIGN.md section 9)")
        na.append({"property_id": pid, "reason": reason})
    m = {
        "version": 1,
        "setup_cmd": "./setup.sh",
        "hooks": {
            "guard": "verif",
            "enable": "no source hooks are committed to /repo: harnesses, helper accessors and Go-level models are injected at check time as virtual files /repo/<pkg>/zz_verif_*.go (//go:build verif) through go/packages Overlay (engine) and `go test -tags verif -overlay` (native replay)",
            "baseline_off_cmd": BASELINE["cmd"],
            "source_commits": [],
            "add_only": True,
        },
        "engines": [{
            "name": "ssasym",
            "path": "/verif/engine",
            "serves_properties": [c["property_id"] for c in checks],
            "kind_free_text": "own Go SSA -> SMT-LIB2 bounded symbolic executor (path-based, forking, if-conversion, cooperative goroutines, channel model) over /repo's current source; z3 -in primary, z3 5.1 / cvc5 / cvc5 --solve-bv-as-int raced on hard obligations",
        }],
        "checks": checks,
        "not_applicable": na,
        "notes": "All claims are bounded: each evidence file lists bounds, functions encoded, queries and solver time. Exit 2 from ./check means inconclusive (unknown, unwinding assertion, vacuity, non-reproducing counterexample) and is never reported as success.",
    }
    out = os.path.join(HERE, 'MANIFEST.json')
    json.dump(m, open(out, 'w'), indent=1)
    try:
        import jsonschema
        jsonschema.validate(m, json.load(open('/root/.vp/MANIFEST.schema.json')))
        print("MANIFEST.json valid:", len(checks), "checks,", len(na), "not applicable")
    except ImportError:
        print("jsonschema not available; wrote without validating")


if __name__ == '__main__':
    main()
