#!/bin/bash
# Confirms every delivered seed in a scratch worktree: demo passes without the change, fails with it,
# and the existing tests of the touched packages and their importers still pass with it.
# Writes /verif/seeded/<id>/{patch.diff,demo test,meta.json}.
export GOFLAGS=-mod=mod GOPROXY=off
WT=/tmp/wt/confirm
OUT=/verif/seeded
LOG=/tmp/seedconfirm.log
: >> $LOG
cd /repo
git worktree remove --force $WT 2>/dev/null
git worktree add -q --detach $WT HEAD
for d in /tmp/seedout/${AG:-a}*/C*/; do
  id=$(basename $d)
  if [ -n "$ONLY" ] && ! echo " $ONLY " | grep -q " $id "; then continue; fi
  agent=$(basename $(dirname $d))
  name=$id; case $agent in a*) ;; *) name=$id-$agent;; esac
  demo=$(ls $d/zz_seed_*_test.go 2>/dev/null | head -1)
  [ -z "$demo" ] && { echo "$id: no demo" >> $LOG; continue; }
  demoname=$(basename $demo)
  place=$(grep -oE "[a-zA-Z0-9_/]+/$demoname" $d/README.md | head -1)
  [ -z "$place" ] && { echo "$id: no placement" >> $LOG; continue; }
  pkg=./$(dirname $place)
  cd $WT; git checkout -q -- .; git clean -fdq
  cp $demo $WT/$place
  t0=$(date +%s)
  go test -vet=off -count=1 -run 'Seed|seed' $pkg > /tmp/sc_without.txt 2>&1; without=$?
  if ! git apply $d/patch.diff 2>>$LOG; then echo "$id: patch does not apply" >> $LOG; continue; fi
  go test -vet=off -count=1 -run 'Seed|seed' $pkg > /tmp/sc_with.txt 2>&1; with=$?
  # existing tests of touched packages + importers (demo moved aside)
  mv $WT/$place /tmp/sc_demo.go
  touched=$(git diff --name-only | xargs -n1 dirname | sort -u | sed 's#^#./#')
  imps=""
  for t in $touched; do
    ip=$(go list $t 2>/dev/null)
    imps="$imps $(go list -f '{{.ImportPath}} {{join .Imports " "}}' ./... 2>/dev/null | awk -v p="$ip" '{for(i=2;i<=NF;i++) if($i==p) print $1}')"
  done
  pk=$(echo $touched $imps | tr ' ' '\n' | sort -u | grep -v '/app$' | grep -v '/pubsub$' | tr '\n' ' ')
  go build ./... > /tmp/sc_build.txt 2>&1; build=$?
  go test -vet=off -count=1 $pk > /tmp/sc_suite.txt 2>&1; suite=$?
  if [ $suite -ne 0 ]; then # known flaky tests: retry once
    go test -vet=off -count=1 $pk > /tmp/sc_suite.txt 2>&1; suite=$?
  fi
  if [ $suite -ne 0 ]; then
    # tests known to be flaky under load (they fail on the unchanged tree too): accept the suite if
    # nothing else fails and each of them passes when re-run alone (up to 4 attempts)
    ftests=$(grep -E "^--- FAIL: " /tmp/sc_suite.txt | awk '{print $3}' | sort -u | tr '\n' ' ')
    fpkgs=$(grep -E "^FAIL\s+github.com" /tmp/sc_suite.txt | awk '{print $2}' | sort -u | tr '\n' ' ')
    onlyflaky=1
    for t in $ftests; do
      case " TestOriginalSampleRateIsNotedInMetaField TestWorkerHealthReporting TestCoordinatedReload TestDirectTransmission TestDirectTransmissionBatchTiming TestStableMaxAlloc " in *" $t "*) ;; *) onlyflaky=0;; esac
    done
    if [ -n "$ftests" ] && [ $onlyflaky -eq 1 ] && ! grep -q "build failed\|panic: test timed out" /tmp/sc_suite.txt; then
      pat=$(echo $ftests | tr ' ' '|')
      for attempt in 1 2 3 4; do
        if go test -vet=off -count=1 -run "^($pat)\$" $fpkgs > /tmp/sc_flaky.txt 2>&1; then suite=0; echo "  ($name: flaky tests [$ftests] passed alone on attempt $attempt)" >> $LOG; break; fi
      done
    fi
  fi
  failing=$(grep -E "^(--- FAIL|FAIL)" /tmp/sc_suite.txt | head -5 | tr '\n' ';')
  t1=$(date +%s)
  echo "$name ($agent): demo_without=$without demo_with=$with build=$build suite=$suite [$failing] pkgs=[$pk] $((t1-t0))s" >> $LOG
  if [ $without -eq 0 ] && [ $with -ne 0 ] && [ $build -eq 0 ] && [ $suite -eq 0 ]; then
    mkdir -p $OUT/$name
    cp $d/patch.diff $OUT/$name/patch.diff
    cp /tmp/sc_demo.go $OUT/$name/$demoname
    cp $d/README.md $OUT/$name/README.agent.md
    python3 - "$id" "$place" "$pk" "$agent" "$name" <<'PY'
import json,sys,re
id,place,pk,agent,name=sys.argv[1:6]
json.dump({"property":id,"demo_placement":place,"source":"independent sub-agent "+agent+" (given only the property text and a scratch worktree)",
 "confirmed":{"demo_passes_without_change":True,"demo_fails_with_change":True,"go_build_all":True,"existing_tests_pass_with_change":pk.split(),
  "commands":["go test -vet=off -count=1 -run 'Seed|seed' ./"+place.rsplit('/',1)[0]+"  (without and with patch.diff)","go build ./...","go test -vet=off -count=1 "+pk]},
 "needs_to_manifest":"see README.agent.md (trigger section)","detected_by":"(filled in by tools/run_seeds.sh)"},open(f'/verif/seeded/{name}/meta.json','w'),indent=1)
PY
  fi
done
cd /repo; git worktree remove --force $WT
echo DONE >> $LOG
