#!/bin/bash
# tools/seedtest.sh <patch.diff> <property id>... : apply a seeded change to /repo, run the checks, undo it.
patch=$1; shift
cd /repo || exit 2
if ! git diff --quiet; then echo "repo dirty"; exit 2; fi
git apply "$patch" || { echo "patch does not apply"; exit 2; }
for id in "$@"; do
  echo "--- $id with $(basename $(dirname $patch))/$(basename $patch)"
  (cd /verif && ./check $id 2>&1 | grep -E "^(VIOLATION|KNOWN-FINDING|INCONCLUSIVE|C[0-9]+ tier)" | cut -c1-260 | head -8; echo "exit=${PIPESTATUS[0]}")
done
git checkout -- . 
