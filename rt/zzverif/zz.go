//go:build verif

// Package zzverif is the harness API. Inside the symbolic engine every call to
// the functions below is intercepted (fresh SMT constants, path-condition
// conjuncts, proof obligations); compiled natively they replay the concrete
// values of a replay file so that a solver counterexample can be re-executed
// against the real build.
package zzverif

import (
	"crypto/sha1"
	"encoding/binary"
	"encoding/json"

	"github.com/dgryski/go-wyhash"
	"fmt"
	"math"
	"os"
	"runtime"
	"strconv"
	"strings"
	"time"
)

type replayValue struct {
	Name  string `json:"name"`
	Kind  string `json:"kind"`
	Value string `json:"value"`
}

type replayFile struct {
	Retries int           `json:"retries,omitempty"`
	Tier    string        `json:"tier,omitempty"`
	Vary    []string      `json:"vary,omitempty"`
	Expect  string        `json:"expect,omitempty"`
	Harness string        `json:"harness"`
	Values  []replayValue `json:"values"`
}

type obs struct {
	Name string `json:"name"`
	Val  string `json:"val"`
}

var (
	rp        replayFile
	pos       int
	Failed    []string
	KnownHit  []string
	BadReplay bool
	observed  []obs
	now       int64
)

func reset(path string) error {
	rp = replayFile{}
	pos = 0
	Failed = nil
	KnownHit = nil
	BadReplay = false
	observed = nil
	b, err := os.ReadFile(path)
	if err != nil {
		return err
	}
	if err := json.Unmarshal(b, &rp); err != nil {
		return err
	}
	if rp.Tier != "" {
		// the harness's bounds (zz.Thorough) are those of the run that produced the replay
		os.Setenv("VERIF_TIER", rp.Tier)
	}
	return nil
}

func next(name string) uint64 {
	// engine-internal nondets (modelled clock, rand, scheduling) have no native reader
	for pos < len(rp.Values) && (rp.Values[pos].Kind == "env" || rp.Values[pos].Kind == "sched") {
		pos++
	}
	if pos >= len(rp.Values) {
		return 0
	}
	v := rp.Values[pos]
	pos++
	x, _ := strconv.ParseUint(v.Value, 10, 64)
	return x
}

func NondetUint(name string) uint       { return uint(next(name)) }
func NondetUint64(name string) uint64   { return next(name) }
func NondetInt64(name string) int64     { return int64(next(name)) }
func NondetInt(name string) int         { return int(next(name)) }
func NondetUint32(name string) uint32   { return uint32(next(name)) }
func NondetInt32(name string) int32     { return int32(next(name)) }
func NondetUint16(name string) uint16   { return uint16(next(name)) }
func NondetByte(name string) byte       { return byte(next(name)) }
func NondetBool(name string) bool       { return next(name) != 0 }
func NondetFloat64(name string) float64 { return math.Float64frombits(next(name)) }
func NondetFloat32(name string) float32 { return math.Float32frombits(uint32(next(name))) }

// NondetStringN is any string of exactly n bytes.
func NondetStringN(name string, n int) string {
	b := make([]byte, n)
	for i := range b {
		b[i] = byte(next(name))
	}
	return string(b)
}

// NondetString is any string of at most maxLen bytes.
func NondetString(name string, maxLen int) string {
	n := int(next(name))
	if n > maxLen {
		BadReplay = true
		n = maxLen
	}
	return NondetStringN(name, n)
}

func NondetBytes(name string, n int) []byte { return []byte(NondetStringN(name, n)) }

// Choose is any value in [0,n); the engine explores every one.
func Choose(name string, n int) int {
	v := int(next(name))
	if v < 0 || v >= n {
		BadReplay = true
		return 0
	}
	return v
}

func Assume(b bool) {
	if !b {
		BadReplay = true
	}
}

func Assert(b bool, msg string) {
	if !b {
		Failed = append(Failed, msg)
	}
}

// AssertKnown is an assertion restricted to the region of a recorded finding:
// id names the entry of /verif/known_findings.json.
func AssertKnown(id string, b bool, msg string) {
	if !b {
		KnownHit = append(KnownHit, id)
	}
}

// And/Or/Implies/Ite combine booleans without the path fork that && and || cause in the engine.
func And(a, b bool) bool     { return a && b }
func Or(a, b bool) bool      { return a || b }
func Implies(a, b bool) bool { return !a || b }
func IteInt(c bool, a, b int) int {
	if c {
		return a
	}
	return b
}
func IteInt64(c bool, a, b int64) int64 {
	if c {
		return a
	}
	return b
}
func IteUint(c bool, a, b uint) uint {
	if c {
		return a
	}
	return b
}

// InEngine is true only inside the symbolic engine (lets a harness read an engine-side model's record
// where the native run decodes the real output instead).
func InEngine() bool { return false }

// ExactIntFloats tells the engine that every float64 in this harness is an integer of magnitude
// below 2^53 (range-checked on every operation), so float64 is encoded as int64. Call it first.
func ExactIntFloats() {}

// AssumeHashInjective states the assumption that wyhash is collision-free on the values in play:
// from then on the engine treats it as an injective uninterpreted function.
func AssumeHashInjective() {}

func MustCover(fn ...string)     {}
func Bound(name string, n int)   {}
func SelectAll(on bool)          {}
func Unwind(n int)               {}
func AnyOrder(m any)             {}
func Thorough() bool             { return os.Getenv("VERIF_TIER") == "thorough" }
func LenAny(x any) int           { return 0 }
func SwapAny(x any, i, j int)    {}
func UF64(name string, b any) uint64 { return 0 }

// UF32sha1 is the big-endian first word of sha1(s): natively the real hash, in the
// engine the same uninterpreted-function term the modelled crypto/sha1.Sum yields.
func UF32sha1(s string) uint32 {
	sum := sha1.Sum([]byte(s))
	return binary.BigEndian.Uint32(sum[:4])
}

// Wyhash is wyhash.Hash(s, seed): natively real, in the engine the UF of the modelled hash.
func Wyhash(s string, seed uint64) uint64 { return wyhash.Hash([]byte(s), seed) }

func Observe(name string, v any) {
	var s string
	switch x := v.(type) {
	case bool:
		s = strconv.FormatBool(x)
	case int:
		s = strconv.FormatUint(uint64(x), 10) + "/64"
	case int64:
		s = strconv.FormatUint(uint64(x), 10) + "/64"
	case uint:
		s = strconv.FormatUint(uint64(x), 10) + "/64"
	case uint64:
		s = strconv.FormatUint(x, 10) + "/64"
	case int32:
		s = strconv.FormatUint(uint64(uint32(x)), 10) + "/32"
	case uint32:
		s = strconv.FormatUint(uint64(x), 10) + "/32"
	case uint16:
		s = strconv.FormatUint(uint64(x), 10) + "/16"
	case int16:
		s = strconv.FormatUint(uint64(uint16(x)), 10) + "/16"
	case uint8:
		s = strconv.FormatUint(uint64(x), 10) + "/8"
	case int8:
		s = strconv.FormatUint(uint64(uint8(x)), 10) + "/8"
	case float64:
		s = "f:" + strconv.FormatUint(math.Float64bits(x), 16)
	case float32:
		s = "f:" + strconv.FormatUint(uint64(math.Float32bits(x)), 16)
	case string:
		s = strconv.Quote(x)
	case time.Duration:
		s = strconv.FormatUint(uint64(x), 10) + "/64"
	default:
		s = fmt.Sprintf("?%T", v)
	}
	observed = append(observed, obs{name, s})
}

var base = time.Now()

// MonoTime builds a monotonic-clock instant ns nanoseconds after a fixed base.
func MonoTime(ns int64) time.Time { return base.Add(time.Duration(ns)) }

// SetNow fixes what the modelled time.Now returns (engine only; natively time.Now is the real clock).
func SetNow(ns int64) { now = ns }

// Decimal is the width-digit, zero-padded decimal rendering of n.
func Decimal(n uint64, width int) string {
	s := strconv.FormatUint(n, 10)
	for len(s) < width {
		s = "0" + s
	}
	return s
}

type tlog interface {
	Logf(format string, args ...any)
	Fatalf(format string, args ...any)
}

type nativeResult struct {
	Replay string   `json:"replay"`
	Bad    bool     `json:"bad"`
	Failed []string `json:"failed"`
	Known  []string `json:"known"`
	Panic  string   `json:"panic"`
	Obs    []obs    `json:"obs"`
}

// RunReplays runs every replay file listed in $VERIF_REPLAY_LIST through its harness
// and appends one JSON line per replay to $VERIF_RESULT.
func RunReplays(t tlog, harnesses map[string]func()) {
	list, err := os.ReadFile(os.Getenv("VERIF_REPLAY_LIST"))
	if err != nil {
		t.Fatalf("replay list: %v", err)
	}
	out, err := os.OpenFile(os.Getenv("VERIF_RESULT"), os.O_CREATE|os.O_WRONLY|os.O_APPEND, 0644)
	if err != nil {
		t.Fatalf("result file: %v", err)
	}
	defer out.Close()
	for _, p := range strings.Split(string(list), "\n") {
		p = strings.TrimSpace(p)
		if p == "" {
			continue
		}
		if err := reset(p); err != nil {
			t.Fatalf("replay %s: %v", p, err)
		}
		h, ok := harnesses[rp.Harness]
		if !ok {
			continue
		}
		res := nativeResult{Replay: p}
		// A counterexample that depends on Go's (randomised) map iteration order cannot be forced
		// natively; such replay files ask for repeated attempts until the failure shows.
		attempts := 1
		if rp.Retries > 0 {
			attempts = rp.Retries
		}
		// A counterexample whose decisive value is the result of a hash the engine treats as an
		// uninterpreted function (sha1, wyhash) cannot be forced natively either: the harness names
		// the hash's inputs (zz.SearchOnReplay) and the replay searches them, all other values kept,
		// until the same failure shows with the real hash; the file is rewritten with what was found.
		search := len(rp.Vary) > 0 && rp.Expect != "pass" && rp.Expect != ""
		if search && attempts < 4096 {
			attempts = 4096
		}
		for a := 0; a < attempts; a++ {
			if a > 0 {
				if err := reset(p); err != nil {
					break
				}
				if search {
					varyValues(a)
				}
			}
			res.Panic = ""
			func() {
				defer func() {
					if r := recover(); r != nil {
						res.Panic = fmt.Sprint(r)
					}
				}()
				h()
			}()
			if (len(Failed) > 0 || len(KnownHit) > 0 || res.Panic != "") && !(search && BadReplay) {
				if search && a > 0 {
					// keep what was found, so that replaying the file again reproduces it directly
					rewriteRealised(p, a)
				}
				break
			}
		}
		res.Bad, res.Failed, res.Known, res.Obs = BadReplay, Failed, KnownHit, observed
		b, _ := json.Marshal(res)
		out.Write(append(b, '\n'))
		t.Logf("%s: bad=%v failed=%v known=%v panic=%q", p, res.Bad, res.Failed, res.Known, res.Panic)
	}
}

// SearchOnReplay names nondets (by the name given to Nondet*) that are inputs of a hash the engine
// treats as an uninterpreted function. Natively a no-op; see RunReplays.
func SearchOnReplay(name string) {}

// PreemptAtSync(n) lets the engine switch the running goroutine out at synchronisation points
// (mutex unlocks, modelled sync.Map operations, zz.Preempt) up to n times per path, forking on
// each choice. Natively the Go scheduler does what it does; harnesses that use it repeat the
// racing section many times natively (see their comments).
func PreemptAtSync(n int) {}

// PoolReuse makes the engine's sync.Pool keep what is Put and hand the most recently returned
// object out again on the next Get (what a single P does natively when no GC intervenes);
// without it the engine's Get always calls New, which hides aliasing through a pool.
func PoolReuse() {}

// Preempt is an explicit preemption point.
func Preempt() { runtime.Gosched() }

func variedName(n string) string {
	if i := strings.IndexByte(n, '#'); i >= 0 {
		n = n[:i]
	}
	if i := strings.IndexByte(n, '['); i >= 0 {
		n = n[:i]
	}
	return strings.TrimSuffix(n, ".len")
}

// varyValues replaces the values of the searched nondets by the attempt's pseudo-random ones
// (string and byte-slice elements stay bytes, lengths are kept).
func varyValues(attempt int) {
	x := uint64(attempt)*0x9E3779B97F4A7C15 + 0x1234567
	for i := range rp.Values {
		v := &rp.Values[i]
		hit := false
		for _, n := range rp.Vary {
			if variedName(v.Name) == n && !strings.Contains(v.Name, ".len") {
				hit = true
			}
		}
		if !hit {
			continue
		}
		x ^= x >> 30
		x *= 0xBF58476D1CE4E5B9
		x ^= x >> 27
		x *= 0x94D049BB133111EB
		x ^= x >> 31
		val := x
		if strings.Contains(v.Name, "[") {
			val &= 0xff
		}
		v.Value = strconv.FormatUint(val, 10)
	}
}

// rewriteRealised stores the values the search found in the replay file (all other fields kept).
func rewriteRealised(path string, attempt int) {
	b, err := os.ReadFile(path)
	if err != nil {
		return
	}
	var m map[string]any
	if json.Unmarshal(b, &m) != nil {
		return
	}
	m["values"] = rp.Values
	m["realised"] = fmt.Sprintf("values of %v were found by the native search (attempt %d): the engine's counterexample fixed them only through an uninterpreted hash", rp.Vary, attempt)
	delete(m, "vary")
	if out, err := json.MarshalIndent(m, "", " "); err == nil {
		os.WriteFile(path, out, 0644)
	}
}
