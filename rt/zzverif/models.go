//go:build verif

package zzverif

// Go-level models: bodies that the engine executes symbolically INSTEAD of the
// named callee (assembly, reflection, or library code outside reach). Natively
// they are dead code.

//verif:model sort.Slice
func ModelSortSlice(x any, less func(i, j int) bool) {
	n := LenAny(x)
	for i := 1; i < n; i++ {
		for j := i; j > 0 && less(j, j-1); j-- {
			SwapAny(x, j, j-1)
		}
	}
}

//verif:model sort.SliceStable
func ModelSortSliceStable(x any, less func(i, j int) bool) { ModelSortSlice(x, less) }

//verif:model sort.Strings
func ModelSortStrings(x []string) {
	for i := 1; i < len(x); i++ {
		for j := i; j > 0 && x[j] < x[j-1]; j-- {
			x[j], x[j-1] = x[j-1], x[j]
		}
	}
}

//verif:model errors.Is
func ModelErrorsIs(err, target error) bool {
	for {
		if err == target {
			return true
		}
		if x, ok := err.(interface{ Is(error) bool }); ok && x.Is(target) {
			return true
		}
		u, ok := err.(interface{ Unwrap() error })
		if !ok {
			return false
		}
		err = u.Unwrap()
		if err == nil {
			return false
		}
	}
}

//verif:model internal/bytealg.IndexByteString
func ModelIndexByteString(s string, c byte) int {
	for i := 0; i < len(s); i++ {
		if s[i] == c {
			return i
		}
	}
	return -1
}

//verif:model internal/bytealg.IndexByte
func ModelIndexByte(b []byte, c byte) int {
	for i := 0; i < len(b); i++ {
		if b[i] == c {
			return i
		}
	}
	return -1
}

//verif:model internal/bytealg.LastIndexByteString
func ModelLastIndexByteString(s string, c byte) int {
	for i := len(s) - 1; i >= 0; i-- {
		if s[i] == c {
			return i
		}
	}
	return -1
}

//verif:model internal/bytealg.CountString
func ModelCountString(s string, c byte) int {
	n := 0
	for i := 0; i < len(s); i++ {
		if s[i] == c {
			n++
		}
	}
	return n
}

//verif:model internal/bytealg.Count
func ModelCount(b []byte, c byte) int {
	n := 0
	for i := 0; i < len(b); i++ {
		if b[i] == c {
			n++
		}
	}
	return n
}

//verif:model internal/bytealg.Equal
func ModelBytesEqual(a, b []byte) bool { return string(a) == string(b) }

//verif:model internal/bytealg.Compare
func ModelBytesCompare(a, b []byte) int {
	x, y := string(a), string(b)
	if x < y {
		return -1
	}
	if x > y {
		return 1
	}
	return 0
}

//verif:model internal/bytealg.IndexString
func ModelIndexString(s, sub string) int {
	n := len(sub)
	for i := 0; i+n <= len(s); i++ {
		if s[i:i+n] == sub {
			return i
		}
	}
	return -1
}

//verif:model internal/bytealg.Index
func ModelIndex(a, b []byte) int { return ModelIndexString(string(a), string(b)) }

//verif:model strings.Index
func ModelStringsIndex(s, sub string) int { return ModelIndexString(s, sub) }

//verif:model strings.Contains
func ModelStringsContains(s, sub string) bool { return ModelIndexString(s, sub) >= 0 }

//verif:model strings.HasPrefix
func ModelHasPrefix(s, p string) bool { return len(s) >= len(p) && s[:len(p)] == p }

//verif:model strings.HasSuffix
func ModelHasSuffix(s, p string) bool { return len(s) >= len(p) && s[len(s)-len(p):] == p }

//verif:model strings.IndexByte
func ModelStringsIndexByte(s string, c byte) int { return ModelIndexByteString(s, c) }

//verif:model internal/bytealg.MakeNoZero
func ModelMakeNoZero(n int) []byte { return make([]byte, n) }

//verif:model internal/stringslite.Index
func ModelStringsliteIndex(s, sub string) int { return ModelIndexString(s, sub) }

//verif:model internal/stringslite.IndexByte
func ModelStringsliteIndexByte(s string, c byte) int { return ModelIndexByteString(s, c) }

//verif:model internal/stringslite.HasPrefix
func ModelStringsliteHasPrefix(s, p string) bool { return ModelHasPrefix(s, p) }

//verif:model internal/stringslite.HasSuffix
func ModelStringsliteHasSuffix(s, p string) bool { return ModelHasSuffix(s, p) }
