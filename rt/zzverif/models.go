//go:build verif

package zzverif

import (
	"context"
	"sync"
)

// Go-level models: bodies that the engine executes symbolically INSTEAD of the
// named callee (assembly, reflection, or library code outside reach). Natively
// they are dead code.

//verif:model sort.Slice
func ModelSortSlice(x any, less func(i, j int) bool) {
	n := LenAny(x)
	for i := 1; i < n; i++ {
		for j := i; j > 0 && less(j, j-1); j-- {
			SwapAny(x, j, j-1)
		}
	}
}

//verif:model sort.SliceStable
func ModelSortSliceStable(x any, less func(i, j int) bool) { ModelSortSlice(x, less) }

//verif:model sort.Strings
func ModelSortStrings(x []string) {
	for i := 1; i < len(x); i++ {
		for j := i; j > 0 && x[j] < x[j-1]; j-- {
			x[j], x[j-1] = x[j-1], x[j]
		}
	}
}

//verif:model errors.Is
func ModelErrorsIs(err, target error) bool {
	for {
		if err == target {
			return true
		}
		if x, ok := err.(interface{ Is(error) bool }); ok && x.Is(target) {
			return true
		}
		u, ok := err.(interface{ Unwrap() error })
		if !ok {
			return false
		}
		err = u.Unwrap()
		if err == nil {
			return false
		}
	}
}

//verif:model internal/bytealg.IndexByteString
func ModelIndexByteString(s string, c byte) int {
	for i := 0; i < len(s); i++ {
		if s[i] == c {
			return i
		}
	}
	return -1
}

//verif:model internal/bytealg.IndexByte
func ModelIndexByte(b []byte, c byte) int {
	for i := 0; i < len(b); i++ {
		if b[i] == c {
			return i
		}
	}
	return -1
}

//verif:model internal/bytealg.LastIndexByteString
func ModelLastIndexByteString(s string, c byte) int {
	for i := len(s) - 1; i >= 0; i-- {
		if s[i] == c {
			return i
		}
	}
	return -1
}

//verif:model internal/bytealg.CountString
func ModelCountString(s string, c byte) int {
	n := 0
	for i := 0; i < len(s); i++ {
		if s[i] == c {
			n++
		}
	}
	return n
}

//verif:model internal/bytealg.Count
func ModelCount(b []byte, c byte) int {
	n := 0
	for i := 0; i < len(b); i++ {
		if b[i] == c {
			n++
		}
	}
	return n
}

//verif:model internal/bytealg.Equal
func ModelBytesEqual(a, b []byte) bool { return string(a) == string(b) }

//verif:model internal/bytealg.Compare
func ModelBytesCompare(a, b []byte) int {
	x, y := string(a), string(b)
	if x < y {
		return -1
	}
	if x > y {
		return 1
	}
	return 0
}

//verif:model internal/bytealg.CompareString
func ModelCompareString(x, y string) int {
	if x < y {
		return -1
	}
	if x > y {
		return 1
	}
	return 0
}

//verif:model internal/bytealg.IndexString
func ModelIndexString(s, sub string) int {
	n := len(sub)
	for i := 0; i+n <= len(s); i++ {
		if s[i:i+n] == sub {
			return i
		}
	}
	return -1
}

//verif:model internal/bytealg.Index
func ModelIndex(a, b []byte) int { return ModelIndexString(string(a), string(b)) }

//verif:model strings.Index
func ModelStringsIndex(s, sub string) int { return ModelIndexString(s, sub) }

//verif:model strings.Contains
func ModelStringsContains(s, sub string) bool { return ModelIndexString(s, sub) >= 0 }

//verif:model strings.HasPrefix
func ModelHasPrefix(s, p string) bool { return len(s) >= len(p) && s[:len(p)] == p }

//verif:model strings.HasSuffix
func ModelHasSuffix(s, p string) bool { return len(s) >= len(p) && s[len(s)-len(p):] == p }

//verif:model strings.IndexByte
func ModelStringsIndexByte(s string, c byte) int { return ModelIndexByteString(s, c) }

//verif:model internal/bytealg.MakeNoZero
func ModelMakeNoZero(n int) []byte { return make([]byte, n) }

//verif:model internal/stringslite.Index
func ModelStringsliteIndex(s, sub string) int { return ModelIndexString(s, sub) }

//verif:model internal/stringslite.IndexByte
func ModelStringsliteIndexByte(s string, c byte) int { return ModelIndexByteString(s, c) }

//verif:model internal/stringslite.HasPrefix
func ModelStringsliteHasPrefix(s, p string) bool { return ModelHasPrefix(s, p) }

//verif:model internal/stringslite.HasSuffix
func ModelStringsliteHasSuffix(s, p string) bool { return ModelHasSuffix(s, p) }

// ---- sync.Map as a plain map per instance (the real one is lock-free hash-trie code over
// unsafe pointers; its documented contract is that of a map with atomic operations) ----

var syncMaps = map[*sync.Map]map[any]any{}

func syncMapOf(m *sync.Map) map[any]any {
	mm := syncMaps[m]
	if mm == nil {
		mm = map[any]any{}
		syncMaps[m] = mm
	}
	return mm
}

//verif:model (*sync.Map).Load
func ModelSyncMapLoad(m *sync.Map, key any) (any, bool) {
	Preempt() // each operation is atomic; another goroutine may run between two of them
	v, ok := syncMapOf(m)[key]
	return v, ok
}

//verif:model (*sync.Map).Store
func ModelSyncMapStore(m *sync.Map, key, value any) {
	Preempt()
	syncMapOf(m)[key] = value
}

//verif:model (*sync.Map).LoadOrStore
func ModelSyncMapLoadOrStore(m *sync.Map, key, value any) (any, bool) {
	Preempt()
	mm := syncMapOf(m)
	if v, ok := mm[key]; ok {
		return v, true
	}
	mm[key] = value
	return value, false
}

//verif:model (*sync.Map).LoadAndDelete
func ModelSyncMapLoadAndDelete(m *sync.Map, key any) (any, bool) {
	mm := syncMapOf(m)
	v, ok := mm[key]
	delete(mm, key)
	return v, ok
}

//verif:model (*sync.Map).Delete
func ModelSyncMapDelete(m *sync.Map, key any) { delete(syncMapOf(m), key) }

//verif:model (*sync.Map).Swap
func ModelSyncMapSwap(m *sync.Map, key, value any) (any, bool) {
	mm := syncMapOf(m)
	v, ok := mm[key]
	mm[key] = value
	return v, ok
}

//verif:model (*sync.Map).Range
func ModelSyncMapRange(m *sync.Map, f func(key, value any) bool) {
	for k, v := range syncMapOf(m) {
		if !f(k, v) {
			return
		}
	}
}

//verif:model (*sync.Map).Clear
func ModelSyncMapClear(m *sync.Map) { clear(syncMapOf(m)) }

// ---- context.WithValue without the reflect-based comparability check ----

type modelValueCtx struct {
	context.Context
	key, val any
}

func (c *modelValueCtx) Value(key any) any {
	if c.key == key {
		return c.val
	}
	return c.Context.Value(key)
}

//verif:model context.WithValue
func ModelContextWithValue(parent context.Context, key, val any) context.Context {
	return &modelValueCtx{parent, key, val}
}
