#!/bin/bash
# Builds the engine offline from files on disk.
set -e
cd "$(dirname "$0")/engine"
export PATH=/opt/veriftools/go1.26.8/bin:$PATH
GOTOOLCHAIN=local GOFLAGS=-mod=mod GOPROXY=off GOSUMDB=off go build -o ../bin/ssasym .
