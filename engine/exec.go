package main

import (
	"fmt"
	"go/constant"
	"go/token"
	"go/types"
	"math"
	"math/big"
	"strings"
	"sync"
	"sync/atomic"

	"golang.org/x/tools/go/ssa"
)

type deferred struct {
	fn   Value
	args []Value
}

type Frame struct {
	fn          *ssa.Function
	block       *ssa.BasicBlock
	prev        *ssa.BasicBlock
	pc          int
	locals      map[ssa.Value]Value
	defers      []deferred
	resultTo    ssa.Value
	isDefer     bool // frame was started by RunDefers: result discarded, caller pc not advanced
	isInit      bool
	sendPending bool
	mergeCond   *Term
	mergeA      *ssa.BasicBlock
	mergeB      *ssa.BasicBlock
	loops       map[*ssa.BasicBlock]int
	panicking   bool // running defers because of a panic
	panicMsg    string
}

type G struct {
	frames    []*Frame
	blockedAt int // progress stamp when it last blocked; -1 = runnable
	done      bool
}

type blockReq struct{ why string }

type NondetRec struct {
	Name string
	Kind string // uint, int, bool, byte, f64, choose
	T    *Term
}

type ObsRec struct {
	Name string
	V    Value
}

type State struct {
	gs       []*G
	cur      int
	progress int
	// preemptsLeft > 0: at synchronisation points (zz.Preempt, mutex unlocks, modelled sync.Map
	// operations) the running goroutine may additionally be switched out (a schedule choice the
	// engine forks on), at most this many times per path; 0 = cooperative switching only
	preemptsLeft int
	frames   []*Frame
	heap     map[int]Value
	globals  map[*ssa.Global]int
	pc       []*Term
	replayQ  []bool
	rpos     int
	onceRan  map[string]bool
	// poolReuse (zz.PoolReuse): sync.Pool keeps what was Put and Get hands the most recently
	// returned object out again (what one P does natively); off: Get always calls New
	poolReuse bool
	pools    map[string][]Value
	nondets  []NondetRec
	obs      []ObsRec
	steps    int
	forks    int
	selectAll bool
	unwind   int
	feasUnknown int
	covered  map[string]bool
	known    []string
	speculative bool
	now      *Term
	nowSet   bool
	locks    map[string]int
	ndBase   int
	model    map[string]*big.Int // a model of pc[:modelOK] (feasibility shortcut)
	modelOK  int
	hashInjective bool
	initDone map[string]bool
}

func cloneFrames(fs []*Frame) []*Frame {
	out := make([]*Frame, len(fs))
	for i, f := range fs {
		nf := *f
		nf.locals = make(map[ssa.Value]Value, len(f.locals))
		for k, v := range f.locals {
			nf.locals[k] = v
		}
		nf.defers = append([]deferred(nil), f.defers...)
		if f.loops != nil {
			nf.loops = make(map[*ssa.BasicBlock]int, len(f.loops))
			for k, v := range f.loops {
				nf.loops[k] = v
			}
		}
		out[i] = &nf
	}
	return out
}

func (s *State) clone() *State {
	n := *s
	n.frames = cloneFrames(s.frames)
	n.gs = make([]*G, len(s.gs))
	for i, g := range s.gs {
		ng := *g
		if i == s.cur {
			ng.frames = n.frames
		} else {
			ng.frames = cloneFrames(g.frames)
		}
		n.gs[i] = &ng
	}
	n.heap = make(map[int]Value, len(s.heap))
	for k, v := range s.heap {
		n.heap[k] = v
	}
	n.globals = make(map[*ssa.Global]int, len(s.globals))
	for k, v := range s.globals {
		n.globals[k] = v
	}
	n.onceRan = make(map[string]bool, len(s.onceRan))
	for k, v := range s.onceRan {
		n.onceRan[k] = v
	}
	if s.pools != nil {
		n.pools = make(map[string][]Value, len(s.pools))
		for k, v := range s.pools {
			n.pools[k] = append([]Value(nil), v...)
		}
	}
	n.initDone = make(map[string]bool, len(s.initDone))
	for k, v := range s.initDone {
		n.initDone[k] = v
	}
	n.covered = make(map[string]bool, len(s.covered))
	for k, v := range s.covered {
		n.covered[k] = v
	}
	n.pc = append([]*Term(nil), s.pc...)
	n.nondets = append([]NondetRec(nil), s.nondets...)
	n.obs = append([]ObsRec(nil), s.obs...)
	n.known = append([]string(nil), s.known...)
	n.replayQ = nil
	n.rpos = 0
	return &n
}

type forkReq struct{ cond *Term }
type pathEnd struct{ status string }
type execErr struct{ msg string }

var objCounter int64

func newObjID() int { return int(atomic.AddInt64(&objCounter, 1)) }

// Finding is one reported problem on a path.
type Finding struct {
	Kind    string // assert | panic | inconclusive | engine | deadlock | known
	Msg     string
	Where   string
	Model   map[string]*big.Int
	Nondets []NondetRec
	Known   string
	Site    string
}

type Engine struct {
	prog    *ssa.Program
	harness *HarnessRun
	models  map[string]*ssa.Function
	// well-known types
	noopSpan  types.Type
	timerType types.Type
	tickerType types.Type
	timeType  types.Type
	errType   types.Type

	mu        sync.Mutex
	funcsSeen map[string]int
	usedModel map[string]int
	findings  []Finding
	sitesHit  map[string]int
	witnesses []map[string]string

	paths, instrs, asserts, assertsOK, ifconv, panicsChecked int64
	pathEnds                                                map[string]int
	initPkgs                                                map[string]bool
	inInit                                                  bool
	mustCover                                               map[string]bool
	bounds                                                  map[string]int64
	vary                                                    map[string]bool // nondets the native replay may search over (inputs of uninterpreted hashes)
	unwindChecked, unwindFailed                             int64
	feasUnknown                                             int64
	goSpawned, goBlockedAtEnd                               int64
	pathWitness                                             []PathWitness
	wantWitnesses                                           int
}

// worker-local context
type W struct {
	e      *Engine
	solver *Solver
}

func (e *Engine) alloc(s *State, v Value) int {
	id := newObjID()
	s.heap[id] = v
	return id
}

func (s *State) top() *Frame { return s.frames[len(s.frames)-1] }

// decide forces a symbolic boolean to be concrete on this path (forking if needed).
func (w *W) decide(s *State, c *Term) bool {
	if v, ok := c.BoolVal(); ok {
		return v
	}
	if s.speculative {
		panic(execErr{"fork during speculation"})
	}
	if s.rpos < len(s.replayQ) {
		v := s.replayQ[s.rpos]
		s.rpos++
		return v
	}
	panic(forkReq{c})
}

func ptrPathWith(p PtrV, i int) []int {
	np := append([]int(nil), p.Path...)
	np[p.SymAt] = i
	return np
}

func (w *W) load(s *State, p PtrV) Value {
	if p.Nil {
		panic(pathEnd{"panic: nil pointer dereference"})
	}
	root, ok := s.heap[p.Obj]
	if !ok {
		panic(execErr{fmt.Sprintf("load from unknown object %d", p.Obj)})
	}
	if p.SymIdx != nil {
		// ite chain over the candidate elements
		var res Value
		okIte := true
		func() {
			defer func() {
				if r := recover(); r != nil {
					if _, isE := r.(execErr); isE {
						okIte = false
						return
					}
					panic(r)
				}
			}()
			if p.SymLen > 8 {
				el := make([]Value, p.SymLen)
				for i := range el {
					el[i] = getPath(root, ptrPathWith(p, i))
				}
				res = iteRuns(p.SymIdx, el)
				return
			}
			res = getPath(root, ptrPathWith(p, p.SymLen-1))
			for i := p.SymLen - 2; i >= 0; i-- {
				res = iteValue(Eq(p.SymIdx, ConstI(int64(i), p.SymIdx.S.W)), getPath(root, ptrPathWith(p, i)), res)
			}
		}()
		if okIte {
			return res
		}
		i := w.concretize(s, p.SymIdx, p.SymLen)
		return getPath(root, ptrPathWith(p, i))
	}
	return getPath(root, p.Path)
}

func (w *W) store(s *State, p PtrV, v Value) {
	if p.Nil {
		panic(pathEnd{"panic: nil pointer dereference (store)"})
	}
	root, ok := s.heap[p.Obj]
	if !ok {
		panic(execErr{fmt.Sprintf("store to unknown object %d", p.Obj)})
	}
	if p.SymIdx != nil {
		okIte := true
		nr := root
		func() {
			defer func() {
				if r := recover(); r != nil {
					if _, isE := r.(execErr); isE {
						okIte = false
						return
					}
					panic(r)
				}
			}()
			for i := 0; i < p.SymLen; i++ {
				pp := ptrPathWith(p, i)
				old := getPath(nr, pp)
				nr = setPath(nr, pp, iteValue(Eq(p.SymIdx, ConstI(int64(i), p.SymIdx.S.W)), v, old))
			}
		}()
		if okIte {
			s.heap[p.Obj] = nr
			return
		}
		i := w.concretize(s, p.SymIdx, p.SymLen)
		s.heap[p.Obj] = setPath(root, ptrPathWith(p, i), v)
		return
	}
	s.heap[p.Obj] = setPath(root, p.Path, v)
}

func constValue(c *ssa.Const) Value {
	t := c.Type()
	if c.Value == nil {
		return zeroValue(t)
	}
	switch u := t.Underlying().(type) {
	case *types.Basic:
		switch {
		case u.Info()&types.IsBoolean != 0:
			return ConstBool(constant.BoolVal(c.Value))
		case u.Info()&types.IsInteger != 0:
			w, _ := widthOf(u)
			iv := constant.ToInt(c.Value)
			if bi, ok := constant.Val(iv).(*big.Int); ok {
				return ConstBV(bi, w)
			}
			if i64, ok := constant.Int64Val(iv); ok {
				return ConstI(i64, w)
			}
			u64, _ := constant.Uint64Val(iv)
			return ConstU(u64, w)
		case u.Info()&types.IsString != 0:
			return StrV{S: constant.StringVal(c.Value)}
		case u.Kind() == types.Float64 || u.Kind() == types.UntypedFloat:
			f, _ := constant.Float64Val(c.Value)
			if exactIntFloats.Load() {
				return exactFloatConst(f)
			}
			return ConstF(f)
		case u.Kind() == types.Float32:
			f, _ := constant.Float32Val(c.Value)
			return ConstF32(f)
		default:
			return OpaqueV{"const " + c.String()}
		}
	case *types.TypeParam:
		panic(execErr{"const of type param"})
	}
	return zeroValue(t)
}

func (w *W) globalPtr(s *State, g *ssa.Global) PtrV {
	id, ok := s.globals[g]
	if !ok {
		id = w.e.alloc(s, zeroValue(g.Type().(*types.Pointer).Elem()))
		s.globals[g] = id
	}
	// first touch of a package whose initialiser has not run on this path: run it now
	// (package-level tables and error values would otherwise silently read as zero)
	if g.Pkg != nil && !w.e.inInit && !s.speculative && s.initDone != nil && !s.initDone[g.Pkg.Pkg.Path()] {
		if initFn := g.Pkg.Func("init"); initFn != nil {
			w.e.noteModel("lazy-init:" + g.Pkg.Pkg.Path())
			w.runInit(s, initFn, true)
		} else {
			s.initDone[g.Pkg.Pkg.Path()] = true
		}
	}
	return PtrV{Obj: id}
}

func (w *W) get(s *State, f *Frame, v ssa.Value) Value {
	switch x := v.(type) {
	case *ssa.Const:
		return constValue(x)
	case *ssa.Global:
		return w.globalPtr(s, x)
	case *ssa.Function:
		return FuncV{Fn: x}
	case *ssa.Builtin:
		return FuncV{Builtin: x}
	}
	r, ok := f.locals[v]
	if !ok {
		panic(execErr{fmt.Sprintf("no value for %s (%T) in %s", v.Name(), v, f.fn)})
	}
	return r
}

func term(v Value) *Term {
	t, ok := v.(*Term)
	if !ok {
		panic(execErr{fmt.Sprintf("expected scalar term, got %T", v)})
	}
	return t
}

func concInt(v Value) (int, bool) {
	t, ok := v.(*Term)
	if !ok || !t.IsConst() || t.S.K != KBV {
		return 0, false
	}
	return int(signed(t.C, t.S.W).Int64()), true
}

// intOrFork returns a concrete int for v, forking over [0,limit] if symbolic.
func (w *W) intOrFork(s *State, v Value, limit int, what string) int {
	if i, ok := concInt(v); ok {
		return i
	}
	t := term(v)
	for i := 0; i <= limit; i++ {
		if w.decide(s, Eq(t, ConstI(int64(i), t.S.W))) {
			return i
		}
	}
	// every value in range was excluded: the path is dead unless a short feasibility query came
	// back unknown; ask again with the full obligation budget before calling it a bound problem
	if r := w.solver.Check(s.pc, false, QOblig); r.Status == "unsat" {
		panic(pathEnd{"infeasible"})
	}
	panic(pathEnd{"bound: symbolic " + what + " outside [0," + fmt.Sprint(limit) + "]"})
}

func strBytes(x StrV) []*Term {
	b := make([]*Term, x.Len())
	for i := range b {
		b[i] = x.Byte(i)
	}
	return b
}

// strLess builds x < y (lexicographic, bytes unsigned).
func strLess(x, y StrV) *Term {
	n := x.Len()
	if y.Len() < n {
		n = y.Len()
	}
	// from the end: res = (len(x) < len(y)) for the equal-prefix case
	res := ConstBool(x.Len() < y.Len())
	for i := n - 1; i >= 0; i-- {
		a, b := x.Byte(i), y.Byte(i)
		res = Ite(Eq(a, b), res, BvCmp("bvult", a, b))
	}
	return res
}

func strEq(x, y StrV) *Term {
	if x.Len() != y.Len() {
		return FalseT
	}
	if x.IsConc() && y.IsConc() {
		return ConstBool(x.S == y.S)
	}
	r := TrueT
	for i := 0; i < x.Len(); i++ {
		r = And(r, Eq(x.Byte(i), y.Byte(i)))
	}
	return r
}

// valueEq builds equality of two values of the same static type.
func valueEq(a, b Value) *Term {
	switch x := a.(type) {
	case *Term:
		y := term(b)
		if x.S.K == KFP {
			return FpEq(x, y)
		}
		return Eq(x, y)
	case StrV:
		return strEq(x, b.(StrV))
	case PtrV:
		y, ok := b.(PtrV)
		if !ok {
			return FalseT
		}
		if x.Nil || y.Nil {
			return ConstBool(x.Nil == y.Nil)
		}
		if x.Obj != y.Obj || len(x.Path) != len(y.Path) {
			return FalseT
		}
		for i := range x.Path {
			if x.Path[i] != y.Path[i] {
				return FalseT
			}
		}
		return TrueT
	case StructV:
		y := b.(StructV)
		r := TrueT
		for i := range x.F {
			r = And(r, valueEq(x.F[i], y.F[i]))
		}
		return r
	case ArrayV:
		y := b.(ArrayV)
		r := TrueT
		for i := range x.E {
			r = And(r, valueEq(x.E[i], y.E[i]))
		}
		return r
	case IfaceV:
		y := b.(IfaceV)
		if x.T == nil || y.T == nil {
			return ConstBool(x.T == nil && y.T == nil)
		}
		if !types.Identical(x.T, y.T) {
			return FalseT
		}
		// Go: comparing two interface values with identical dynamic types that are not
		// comparable (slice, map, func, or a struct/array containing one) is a run-time panic
		if !types.Comparable(x.T) {
			panic(pathEnd{"panic: runtime error: comparing uncomparable type " + x.T.String()})
		}
		return valueEq(x.V, y.V)
	case MapV:
		y := b.(MapV)
		return ConstBool(x.Nil && y.Nil)
	case SliceV:
		y := b.(SliceV)
		return ConstBool(x.Nil && y.Nil)
	case FuncV:
		y := b.(FuncV)
		return ConstBool(x.Nil && y.Nil)
	case ChanV:
		y := b.(ChanV)
		return ConstBool((x.Nil && y.Nil) || (!x.Nil && !y.Nil && x.Obj == y.Obj))
	case OpaqueV:
		panic(execErr{"comparison of opaque value: " + x.Why})
	}
	panic(execErr{fmt.Sprintf("valueEq on %T", a)})
}

func isSigned(t types.Type) bool {
	b, ok := t.Underlying().(*types.Basic)
	if !ok {
		return false
	}
	_, sg := widthOf(b)
	return sg
}

func (w *W) binop(s *State, op token.Token, xv, yv Value, xt, yt types.Type) Value {
	if xs, ok := xv.(StrV); ok {
		ys := yv.(StrV)
		switch op {
		case token.ADD:
			return strConcat(xs, ys)
		case token.EQL:
			return strEq(xs, ys)
		case token.NEQ:
			return Not(strEq(xs, ys))
		case token.LSS, token.LEQ, token.GTR, token.GEQ:
			if xs.IsConc() && ys.IsConc() {
				c := strings.Compare(xs.S, ys.S)
				switch op {
				case token.LSS:
					return ConstBool(c < 0)
				case token.LEQ:
					return ConstBool(c <= 0)
				case token.GTR:
					return ConstBool(c > 0)
				default:
					return ConstBool(c >= 0)
				}
			}
			switch op {
			case token.LSS:
				return strLess(xs, ys)
			case token.LEQ:
				return Not(strLess(ys, xs))
			case token.GTR:
				return strLess(ys, xs)
			default:
				return Not(strLess(xs, ys))
			}
		}
	}
	switch op {
	case token.EQL:
		return valueEq(xv, yv)
	case token.NEQ:
		return Not(valueEq(xv, yv))
	}
	x, ok1 := xv.(*Term)
	y, ok2 := yv.(*Term)
	if !ok1 || !ok2 {
		if o, isO := xv.(OpaqueV); isO {
			return OpaqueV{"binop on opaque: " + o.Why}
		}
		if o, isO := yv.(OpaqueV); isO {
			return OpaqueV{"binop on opaque: " + o.Why}
		}
		panic(execErr{fmt.Sprintf("binop %v on %T,%T", op, xv, yv)})
	}
	if exactIntFloats.Load() && x.S.K == KBV {
		if _, isF := fpSortOf2(xt); isF {
			// exact-integer float mode: float64 values are integers of magnitude < 2^53 held in
			// 64-bit signed bit-vectors; + and - are exact as long as the result stays in range
			// (checked), comparisons are signed; anything else is refused.
			switch op {
			case token.ADD:
				r := BvBin("bvadd", x, y)
				w.exactRange(s, r)
				return r
			case token.SUB:
				r := BvBin("bvsub", x, y)
				w.exactRange(s, r)
				return r
			case token.LSS:
				return BvCmp("bvslt", x, y)
			case token.LEQ:
				return BvCmp("bvsle", x, y)
			case token.GTR:
				return BvCmp("bvsgt", x, y)
			case token.GEQ:
				return BvCmp("bvsge", x, y)
			}
			panic(execErr{"exact-integer float mode does not support " + op.String()})
		}
	}
	if x.S.K == KFP {
		switch op {
		case token.ADD:
			return FpBin("fp.add", x, y)
		case token.SUB:
			return FpBin("fp.sub", x, y)
		case token.MUL:
			return FpBin("fp.mul", x, y)
		case token.QUO:
			return FpBin("fp.div", x, y)
		case token.LSS:
			return FpCmp("fp.lt", x, y)
		case token.LEQ:
			return FpCmp("fp.leq", x, y)
		case token.GTR:
			return FpCmp("fp.gt", x, y)
		case token.GEQ:
			return FpCmp("fp.geq", x, y)
		}
		panic(execErr{"fp binop " + op.String()})
	}
	if x.S.K == KBool {
		switch op {
		case token.AND, token.LAND:
			return And(x, y)
		case token.OR, token.LOR:
			return Or(x, y)
		case token.XOR:
			return Not(Eq(x, y))
		case token.AND_NOT:
			return And(x, Not(y))
		}
		panic(execErr{"bool binop " + op.String()})
	}
	sg := isSigned(xt)
	switch op {
	case token.ADD:
		return BvBin("bvadd", x, y)
	case token.SUB:
		return BvBin("bvsub", x, y)
	case token.MUL:
		return BvBin("bvmul", x, y)
	case token.QUO, token.REM:
		if w.decide(s, Eq(y, ConstU(0, y.S.W))) {
			panic(pathEnd{"panic: integer divide by zero"})
		}
		if op == token.QUO {
			if sg {
				return BvBin("bvsdiv", x, y)
			}
			return BvBin("bvudiv", x, y)
		}
		if sg {
			return BvBin("bvsrem", x, y)
		}
		return BvBin("bvurem", x, y)
	case token.AND:
		return BvBin("bvand", x, y)
	case token.OR:
		return BvBin("bvor", x, y)
	case token.XOR:
		return BvBin("bvxor", x, y)
	case token.AND_NOT:
		return BvBin("bvand", x, BvNot(y))
	case token.SHL, token.SHR:
		// Go: shift count is unsigned or (if signed) must be non-negative.
		if isSigned(yt) {
			if w.decide(s, BvCmp("bvslt", y, ConstU(0, y.S.W))) {
				panic(pathEnd{"panic: negative shift amount"})
			}
		}
		wd := x.S.W
		cnt := y
		if y.S.W > wd {
			big := BvCmp("bvuge", y, ConstU(uint64(wd), y.S.W))
			cnt = Ite(big, ConstU(uint64(wd), wd), Resize(y, wd, false))
		} else if y.S.W < wd {
			cnt = Resize(y, wd, false)
		}
		if op == token.SHL {
			return BvBin("bvshl", x, cnt)
		}
		if sg {
			return BvBin("bvashr", x, cnt)
		}
		return BvBin("bvlshr", x, cnt)
	case token.LSS, token.LEQ, token.GTR, token.GEQ:
		names := map[token.Token][2]string{token.LSS: {"bvult", "bvslt"}, token.LEQ: {"bvule", "bvsle"}, token.GTR: {"bvugt", "bvsgt"}, token.GEQ: {"bvuge", "bvsge"}}
		n := names[op][0]
		if sg {
			n = names[op][1]
		}
		return BvCmp(n, x, y)
	}
	panic(execErr{"binop " + op.String()})
}

func strConcat(xs, ys StrV) StrV {
	if xs.Len() == 0 {
		return ys
	}
	if ys.Len() == 0 {
		return xs
	}
	var num *NumShadow
	if xs.Num != nil || ys.Num != nil {
		num = &NumShadow{}
		add := func(v StrV) bool {
			if v.Num != nil {
				num.Parts = append(num.Parts, v.Num.Parts...)
				return true
			}
			if v.IsConc() {
				num.Parts = append(num.Parts, NumPart{Lit: v.S, Width: len(v.S)})
				return true
			}
			return false
		}
		if !add(xs) || !add(ys) {
			num = nil
		}
	}
	if xs.IsConc() && ys.IsConc() && num == nil {
		return StrV{S: xs.S + ys.S}
	}
	b := append(strBytes(xs), strBytes(ys)...)
	return StrV{Sym: b, Num: num}
}

func fpSortOf(b *types.Basic) (Sort, bool) {
	switch b.Kind() {
	case types.Float64, types.UntypedFloat:
		return F64, true
	case types.Float32:
		return F32, true
	}
	return Sort{}, false
}

func (w *W) convert(s *State, v Value, from, to types.Type) Value {
	fu, tu := from.Underlying(), to.Underlying()
	if o, isO := v.(OpaqueV); isO {
		return OpaqueV{"convert of opaque: " + o.Why}
	}
	if fb, ok := fu.(*types.Basic); ok {
		if tb, ok := tu.(*types.Basic); ok {
			fInt, tInt := fb.Info()&types.IsInteger != 0, tb.Info()&types.IsInteger != 0
			fStr, tStr := fb.Info()&types.IsString != 0, tb.Info()&types.IsString != 0
			fs, fIsF := fpSortOf(fb)
			ts, tIsF := fpSortOf(tb)
			switch {
			case fInt && tInt:
				wd, _ := widthOf(tb)
				_, sg := widthOf(fb)
				return Resize(term(v), wd, sg)
			case fStr && tStr:
				return v
			case fInt && tIsF && exactIntFloats.Load():
				_, sg := widthOf(fb)
				r := Resize(term(v), 64, sg)
				w.exactRange(s, r)
				return r
			case fIsF && tInt && exactIntFloats.Load():
				wd, _ := widthOf(tb)
				return Resize(term(v), wd, true)
			case fInt && tIsF:
				_, sg := widthOf(fb)
				t := term(v)
				if t.IsConst() {
					var f float64
					if sg {
						f = float64(signed(t.C, t.S.W).Int64())
					} else {
						f = float64(t.C.Uint64())
					}
					if ts.W == 32 {
						if sg {
							return ConstF32(float32(signed(t.C, t.S.W).Int64()))
						}
						return ConstF32(float32(t.C.Uint64()))
					}
					return ConstF(f)
				}
				if sg {
					return mk("to_fp_s", ts, t)
				}
				return mk("to_fp_u", ts, t)
			case fIsF && tInt:
				wd, sg := widthOf(tb)
				t := term(v)
				if f, ok := t.F64(); ok {
					// Go: out-of-range conversion is implementation-defined; only fold in-range values
					if !math.IsNaN(f) && !math.IsInf(f, 0) && math.Abs(f) < 9.2e18 {
						if sg {
							return ConstI(int64(f), wd)
						}
						if f >= 0 {
							return ConstU(uint64(f), wd)
						}
						return ConstI(int64(f), wd)
					}
					panic(execErr{"float->int conversion of out-of-range constant"})
				}
				if sg {
					conv := mk("fp.to_sbv", BV(wd), t)
					if wd == 64 || wd == 32 {
						// Out-of-range / NaN conversions are implementation-defined in Go; on amd64 (this
						// platform, and the one counterexamples are replayed on) they yield the minimum
						// integer ("integer indefinite"). SMT-LIB leaves them unspecified.
						lim := math.Ldexp(1, wd-1)
						inRange := And(FpCmp("fp.geq", t, constFP(-lim, t.S)), FpCmp("fp.lt", t, constFP(lim, t.S)))
						minInt := ConstBV(new(big.Int).Lsh(big.NewInt(1), uint(wd-1)), wd)
						return Ite(inRange, conv, minInt)
					}
					return conv
				}
				return mk("fp.to_ubv", BV(wd), t)
			case fIsF && tIsF:
				t := term(v)
				if fs == ts {
					return t
				}
				if f, ok := t.F64(); ok {
					return constFP(f, ts)
				}
				return mk("to_fp_f", ts, t)
			case fInt && tStr:
				t := term(v)
				if t.IsConst() {
					return StrV{S: string(rune(signed(t.C, t.S.W).Int64()))}
				}
				panic(execErr{"string(symbolic rune)"})
			}
			if fb.Kind() == types.UnsafePointer || tb.Kind() == types.UnsafePointer {
				return v
			}
		}
		// string -> []byte / []rune
		if sl, ok := tu.(*types.Slice); ok && fb.Info()&types.IsString != 0 {
			str := v.(StrV)
			if eb, ok := sl.Elem().Underlying().(*types.Basic); ok && eb.Kind() == types.Int32 {
				if !str.IsConc() {
					panic(execErr{"[]rune(symbolic string)"})
				}
				rs := []rune(str.S)
				el := make([]Value, len(rs))
				for i, r := range rs {
					el[i] = ConstI(int64(r), 32)
				}
				id := w.e.alloc(s, ArrayV{el})
				return SliceV{Obj: id, Len: len(el), Cap: len(el)}
			}
			el := make([]Value, str.Len())
			for i := range el {
				el[i] = str.Byte(i)
			}
			id := w.e.alloc(s, ArrayV{el})
			return SliceV{Obj: id, Len: len(el), Cap: len(el)}
		}
		if _, ok := tu.(*types.Pointer); ok && fb.Kind() == types.UnsafePointer {
			return v
		}
	}
	if fsl, ok := fu.(*types.Slice); ok {
		if tb, ok := tu.(*types.Basic); ok && tb.Info()&types.IsString != 0 {
			sl := v.(SliceV)
			if sl.Nil || sl.Len == 0 {
				return StrV{}
			}
			if eb, ok := fsl.Elem().Underlying().(*types.Basic); ok && eb.Kind() == types.Int32 {
				arr := s.heap[sl.Obj].(ArrayV)
				var rs []rune
				for i := 0; i < sl.Len; i++ {
					t := term(arr.E[sl.Off+i])
					if !t.IsConst() {
						panic(execErr{"string([]rune) symbolic"})
					}
					rs = append(rs, rune(signed(t.C, 32).Int64()))
				}
				return StrV{S: string(rs)}
			}
			return w.bytesToStr(s, sl)
		}
	}
	if _, ok := fu.(*types.Pointer); ok {
		return v
	}
	panic(execErr{fmt.Sprintf("convert %v -> %v", from, to)})
}

func (w *W) bytesToStr(s *State, sl SliceV) StrV {
	if sl.Nil || sl.Len == 0 {
		return StrV{}
	}
	arr := s.heap[sl.Obj].(ArrayV)
	allc := true
	bs := make([]*Term, sl.Len)
	for i := 0; i < sl.Len; i++ {
		bs[i] = term(arr.E[sl.Off+i])
		if !bs[i].IsConst() {
			allc = false
		}
	}
	if allc {
		b := make([]byte, sl.Len)
		for i := range b {
			b[i] = byte(bs[i].C.Uint64())
		}
		return StrV{S: string(b)}
	}
	return StrV{Sym: bs}
}

func (e *Engine) lookupMethod(t types.Type, m *types.Func) *ssa.Function {
	ms := e.prog.MethodSets.MethodSet(t)
	sel := ms.Lookup(m.Pkg(), m.Name())
	if sel == nil {
		panic(execErr{fmt.Sprintf("no method %s on %v", m.Name(), t)})
	}
	fn := e.prog.MethodValue(sel)
	if fn == nil {
		panic(execErr{fmt.Sprintf("abstract method %s on %v", m.Name(), t)})
	}
	return fn
}
