package main

import (
	"regexp"
	"fmt"
	"go/types"
	"math"
	"math/big"
	"sort"
	"strconv"
	"strings"
	"sync/atomic"
	"time"

	"crypto/sha1"

	"github.com/dgryski/go-wyhash"
	"golang.org/x/tools/go/ssa"
)

type intrinsic func(w *W, s *State, args []Value) Value

var intrinsics map[string]intrinsic

const zz = "github.com/honeycombio/refinery/internal/zzverif."

func strArg(v Value) string {
	s, ok := v.(StrV)
	if !ok || !s.IsConc() {
		panic(execErr{"expected concrete string argument"})
	}
	return s.S
}

func ptrKey(p PtrV) string { return fmt.Sprintf("%d%v", p.Obj, p.Path) }

func (w *W) newNondet(s *State, base, kind string, sort Sort) *Term {
	name := fmt.Sprintf("%s#%d", base, s.ndBase+len(s.nondets))
	v := Var(name, sort)
	s.nondets = append(s.nondets, NondetRec{Name: name, Kind: kind, T: v})
	if pv, ok := pinnedValue(name); ok { // debugging aid: SSASYM_PIN=<replay file> fixes the nondets
		switch sort.K {
		case KBool:
			s.pc = append(s.pc, Eq(v, ConstBool(pv.Sign() != 0)))
		case KBV:
			s.pc = append(s.pc, Eq(v, ConstBV(pv, sort.W)))
		case KFP:
			s.pc = append(s.pc, Eq(mk("to_fp_bits", sort, ConstBV(pv, sort.W)), v))
		}
	}
	return v
}

var pinned map[string]*big.Int

func pinnedValue(name string) (*big.Int, bool) {
	if pinned == nil {
		return nil, false
	}
	v, ok := pinned[name]
	return v, ok
}

// chooseInt forks over [0,n).
func (w *W) chooseInt(s *State, base string, n int) int {
	if n <= 0 {
		panic(execErr{"Choose with n <= 0"})
	}
	name := fmt.Sprintf("%s#%d", base, s.ndBase+len(s.nondets))
	v := Var(name, BV(64))
	if pv, ok := pinnedValue(name); ok {
		s.nondets = append(s.nondets, NondetRec{Name: name, Kind: "choose", T: v})
		s.pc = append(s.pc, Eq(v, ConstBV(pv, 64)))
		return int(pv.Int64())
	}
	pick := n - 1
	for j := 0; j < n-1; j++ {
		if w.decide(s, Eq(v, ConstI(int64(j), 64))) {
			pick = j
			break
		}
	}
	s.nondets = append(s.nondets, NondetRec{Name: name, Kind: "choose", T: v})
	if pick == n-1 {
		s.pc = append(s.pc, Eq(v, ConstI(int64(pick), 64)))
	}
	return pick
}

func monoTime(w *W, ext *Term) Value {
	z := zeroValue(w.e.timeType).(StructV)
	f := append([]Value(nil), z.F...)
	f[0] = ConstU(1<<63, 64)
	f[1] = ext
	return StructV{f}
}

func (w *W) nowExt(s *State) *Term {
	if s.nowSet {
		return s.now
	}
	v := w.newNondet(s, "now", "env", BV(64))
	lo := ConstI(0, 64)
	if s.now != nil {
		lo = s.now
	}
	s.pc = append(s.pc, BvCmp("bvsge", v, lo), BvCmp("bvslt", v, ConstI(1<<50, 64)))
	s.now = v
	return v
}

func sliceTerms(s *State, sl SliceV) []*Term {
	if sl.Nil || sl.Len == 0 {
		return nil
	}
	arr := s.heap[sl.Obj].(ArrayV)
	ts := make([]*Term, sl.Len)
	for i := range ts {
		ts[i] = term(arr.E[sl.Off+i])
	}
	return ts
}

func allConst(ts []*Term) ([]byte, bool) {
	b := make([]byte, len(ts))
	for i, t := range ts {
		if !t.IsConst() {
			return nil, false
		}
		b[i] = byte(t.C.Uint64())
	}
	return b, true
}

func (w *W) newBytes(s *State, ts []*Term) SliceV {
	el := make([]Value, len(ts))
	for i, t := range ts {
		el[i] = t
	}
	return SliceV{Obj: w.e.alloc(s, ArrayV{el}), Len: len(el), Cap: len(el)}
}

func symStr(ts []*Term) StrV {
	if len(ts) == 0 {
		return StrV{}
	}
	if b, ok := allConst(ts); ok {
		return StrV{S: string(b)}
	}
	return StrV{Sym: ts}
}

func (w *W) opaqueErr(s *State, msg string) Value {
	return IfaceV{T: w.e.errType, V: PtrV{Obj: w.e.alloc(s, StructV{[]Value{StrV{S: msg}}})}}
}

func pow10(k int) uint64 {
	r := uint64(1)
	for i := 0; i < k; i++ {
		r *= 10
	}
	return r
}

// numOf returns the numeric value of a digit-shaped string as a 64-bit term,
// the number of fractional digits, and whether the shape was recognised.
func numOf(str StrV, allowDot bool) (*Term, int, bool) {
	if str.Len() == 0 {
		return nil, 0, false
	}
	if str.IsConc() {
		n := uint64(0)
		k := 0
		dot := false
		for i := 0; i < len(str.S); i++ {
			c := str.S[i]
			if c == '.' && allowDot && !dot {
				dot = true
				continue
			}
			if c < '0' || c > '9' || i >= 19 {
				return nil, 0, false
			}
			n = n*10 + uint64(c-'0')
			if dot {
				k++
			}
		}
		return ConstU(n, 64), k, true
	}
	if str.Num == nil {
		return nil, 0, false
	}
	n := ConstU(0, 64)
	k := 0
	dot := false
	total := 0
	for _, p := range str.Num.Parts {
		if p.N != nil {
			n = BvBin("bvadd", BvBin("bvmul", n, ConstU(pow10(p.Width), 64)), p.N)
			total += p.Width
			if dot {
				k += p.Width
			}
			continue
		}
		for i := 0; i < len(p.Lit); i++ {
			c := p.Lit[i]
			if c == '.' && allowDot && !dot {
				dot = true
				continue
			}
			if c < '0' || c > '9' {
				return nil, 0, false
			}
			n = BvBin("bvadd", BvBin("bvmul", n, ConstU(10, 64)), ConstU(uint64(c-'0'), 64))
			total++
			if dot {
				k++
			}
		}
	}
	if total > 19 {
		return nil, 0, false
	}
	return n, k, true
}

func init() {
	noop := func(w *W, s *State, args []Value) Value { return TupleV{} }
	nondet := func(bits int, kind string) intrinsic {
		return func(w *W, s *State, args []Value) Value {
			return w.newNondet(s, strArg(args[0]), kind, BV(bits))
		}
	}
	intrinsics = map[string]intrinsic{
		zz + "NondetUint":   nondet(64, "uint"),
		zz + "NondetUint64": nondet(64, "uint"),
		zz + "NondetInt64":  nondet(64, "int"),
		zz + "NondetInt":    nondet(64, "int"),
		zz + "NondetUint32": nondet(32, "uint"),
		zz + "NondetInt32":  nondet(32, "int"),
		zz + "NondetUint16": nondet(16, "uint"),
		zz + "NondetByte":   nondet(8, "uint"),
		zz + "NondetBool": func(w *W, s *State, args []Value) Value {
			return w.newNondet(s, strArg(args[0]), "bool", BoolSort)
		},
		zz + "NondetFloat64": func(w *W, s *State, args []Value) Value {
			return w.newNondet(s, strArg(args[0]), "f64", F64)
		},
		zz + "NondetFloat32": func(w *W, s *State, args []Value) Value {
			return w.newNondet(s, strArg(args[0]), "f32", F32)
		},
		zz + "NondetStringN": func(w *W, s *State, args []Value) Value {
			n := w.intOrFork(s, args[1], 64, "string len")
			var bs []*Term
			for i := 0; i < n; i++ {
				bs = append(bs, w.newNondet(s, fmt.Sprintf("%s[%d]", strArg(args[0]), i), "uint", BV(8)))
			}
			return symStr(bs)
		},
		zz + "NondetString": func(w *W, s *State, args []Value) Value {
			mx := w.intOrFork(s, args[1], 64, "string max len")
			n := w.chooseInt(s, strArg(args[0])+".len", mx+1)
			var bs []*Term
			for i := 0; i < n; i++ {
				bs = append(bs, w.newNondet(s, fmt.Sprintf("%s[%d]", strArg(args[0]), i), "uint", BV(8)))
			}
			return symStr(bs)
		},
		zz + "NondetBytes": func(w *W, s *State, args []Value) Value {
			n := w.intOrFork(s, args[1], 64, "bytes len")
			var bs []*Term
			for i := 0; i < n; i++ {
				bs = append(bs, w.newNondet(s, fmt.Sprintf("%s[%d]", strArg(args[0]), i), "uint", BV(8)))
			}
			return w.newBytes(s, bs)
		},
		zz + "Choose": func(w *W, s *State, args []Value) Value {
			n := w.intOrFork(s, args[1], 1024, "choose n")
			return ConstI(int64(w.chooseInt(s, strArg(args[0]), n)), 64)
		},
		zz + "Assume": func(w *W, s *State, args []Value) Value {
			c := term(args[0])
			if v, ok := c.BoolVal(); ok {
				if !v {
					panic(pathEnd{"assume-false"})
				}
				return TupleV{}
			}
			s.pc = append(s.pc, c)
			if s.modelSatisfies(s.pc) {
				s.modelOK = len(s.pc)
				return TupleV{}
			}
			r := w.solver.Check(s.pc, true, QFeas)
			if r.Status == "unsat" {
				panic(pathEnd{"assume-infeasible"})
			}
			if r.Status == "sat" && r.Model != nil {
				s.model, s.modelOK = r.Model, len(s.pc)
			} else {
				s.model, s.modelOK = nil, 0
			}
			return TupleV{}
		},
		zz + "Assert": func(w *W, s *State, args []Value) Value {
			w.assert(s, term(args[0]), strArg(args[1]), "")
			return TupleV{}
		},
		zz + "AssertKnown": func(w *W, s *State, args []Value) Value {
			w.assert(s, term(args[1]), strArg(args[2]), strArg(args[0]))
			return TupleV{}
		},
		zz + "And":     func(w *W, s *State, args []Value) Value { return And(term(args[0]), term(args[1])) },
		zz + "Or":      func(w *W, s *State, args []Value) Value { return Or(term(args[0]), term(args[1])) },
		zz + "Implies": func(w *W, s *State, args []Value) Value { return Or(Not(term(args[0])), term(args[1])) },
		zz + "IteInt":  func(w *W, s *State, args []Value) Value { return Ite(term(args[0]), term(args[1]), term(args[2])) },
		zz + "IteInt64": func(w *W, s *State, args []Value) Value { return Ite(term(args[0]), term(args[1]), term(args[2])) },
		zz + "IteUint": func(w *W, s *State, args []Value) Value { return Ite(term(args[0]), term(args[1]), term(args[2])) },
		zz + "InEngine": func(w *W, s *State, args []Value) Value { return TrueT },
		zz + "ExactIntFloats": func(w *W, s *State, args []Value) Value {
			exactIntFloats.Store(true)
			w.e.noteModel("encoding:exact-integer-floats (float64 as int64, range-checked to |x| < 2^53)")
			return TupleV{}
		},
		zz + "MustCover": func(w *W, s *State, args []Value) Value {
			sl := args[0].(SliceV)
			if !sl.Nil {
				arr := s.heap[sl.Obj].(ArrayV)
				w.e.mu.Lock()
				for i := 0; i < sl.Len; i++ {
					n := strArg(arr.E[sl.Off+i])
					if _, ok := w.e.mustCover[n]; !ok {
						w.e.mustCover[n] = false
					}
				}
				w.e.mu.Unlock()
			}
			return TupleV{}
		},
		zz + "Bound": func(w *W, s *State, args []Value) Value {
			n, _ := concInt(args[1])
			w.e.mu.Lock()
			w.e.bounds[strArg(args[0])] = int64(n)
			w.e.mu.Unlock()
			return TupleV{}
		},
		zz + "PreemptAtSync": func(w *W, s *State, args []Value) Value {
			n, _ := concInt(args[0])
			s.preemptsLeft = n
			return TupleV{}
		},
		zz + "PoolReuse": func(w *W, s *State, args []Value) Value {
			s.poolReuse = true
			w.e.noteModel("model:sync.Pool keeps returned objects; Get reuses the most recently Put one (LIFO), New when empty")
			return TupleV{}
		},
		zz + "Preempt": func(w *W, s *State, args []Value) Value {
			if w.preemptChoice(s) {
				w.preemptNow(s)
			}
			return TupleV{}
		},
		zz + "SearchOnReplay": func(w *W, s *State, args []Value) Value {
			w.e.mu.Lock()
			if w.e.vary == nil {
				w.e.vary = map[string]bool{}
			}
			w.e.vary[strArg(args[0])] = true
			w.e.mu.Unlock()
			return TupleV{}
		},
		zz + "Observe": func(w *W, s *State, args []Value) Value {
			iv := args[1].(IfaceV)
			s.obs = append(s.obs, ObsRec{Name: strArg(args[0]), V: iv.V})
			return TupleV{}
		},
		zz + "Thorough": func(w *W, s *State, args []Value) Value {
			return ConstBool(w.e.harness.Tier == "thorough")
		},
		zz + "SelectAll": func(w *W, s *State, args []Value) Value {
			v, _ := term(args[0]).BoolVal()
			s.selectAll = v
			return TupleV{}
		},
		zz + "Unwind": func(w *W, s *State, args []Value) Value {
			n, _ := concInt(args[0])
			s.unwind = n
			return TupleV{}
		},
		zz + "AnyOrder": func(w *W, s *State, args []Value) Value {
			m := args[0].(IfaceV).V.(MapV)
			if !m.Nil {
				md := *s.heap[m.Obj].(*MapData)
				md.AnyOrder = true
				s.heap[m.Obj] = &md
			}
			return TupleV{}
		},
		zz + "MonoTime": func(w *W, s *State, args []Value) Value {
			return monoTime(w, term(args[0]))
		},
		zz + "SetNow": func(w *W, s *State, args []Value) Value {
			s.now = term(args[0])
			s.nowSet = true
			return TupleV{}
		},
		zz + "Decimal": func(w *W, s *State, args []Value) Value {
			n := term(args[0])
			width := w.intOrFork(s, args[1], 20, "decimal width")
			if n.IsConst() {
				str := n.C.String()
				for len(str) < width {
					str = "0" + str
				}
				return StrV{S: str}
			}
			// bytes are fresh symbolic digits tied to n by sum(d_i*10^k) == n
			bs := make([]*Term, width)
			sum := ConstU(0, 64)
			for i := 0; i < width; i++ {
				d := Var(fmt.Sprintf("dec!%d!%d", n.id, i), BV(8))
				bs[i] = d
				s.pc = append(s.pc, BvCmp("bvuge", d, ConstU('0', 8)), BvCmp("bvule", d, ConstU('9', 8)))
				sum = BvBin("bvadd", BvBin("bvmul", sum, ConstU(10, 64)), Resize(BvBin("bvsub", d, ConstU('0', 8)), 64, false))
			}
			s.pc = append(s.pc, Eq(sum, n), BvCmp("bvult", n, ConstU(pow10(width), 64)))
			return StrV{Sym: bs, Num: &NumShadow{Parts: []NumPart{{N: n, Width: width}}}}
		},
		zz + "LenAny": func(w *W, s *State, args []Value) Value {
			sl := args[0].(IfaceV).V.(SliceV)
			return ConstI(int64(sl.Len), 64)
		},
		zz + "SwapAny": func(w *W, s *State, args []Value) Value {
			sl := args[0].(IfaceV).V.(SliceV)
			i := w.intOrFork(s, args[1], sl.Len, "swap i")
			j := w.intOrFork(s, args[2], sl.Len, "swap j")
			arr := s.heap[sl.Obj].(ArrayV)
			ne := append([]Value(nil), arr.E...)
			ne[sl.Off+i], ne[sl.Off+j] = ne[sl.Off+j], ne[sl.Off+i]
			s.heap[sl.Obj] = ArrayV{ne}
			return TupleV{}
		},
		zz + "UF64": func(w *W, s *State, args []Value) Value {
			// uninterpreted function of a string/bytes argument
			name := strArg(args[0])
			var ts []*Term
			switch x := args[1].(type) {
			case StrV:
				ts = strBytes(x)
			case SliceV:
				ts = sliceTerms(s, x)
			}
			return UF(fmt.Sprintf("%s_%d", name, len(ts)), BV(64), ts...)
		},

		// ---- sync ----
		"(*sync.Mutex).Lock":      lockW,
		"(*sync.Mutex).Unlock":    unlockW,
		"(*sync.Mutex).TryLock":   tryLockW,
		"(*sync.RWMutex).Lock":    lockW,
		"(*sync.RWMutex).Unlock":  unlockW,
		"(*sync.RWMutex).RLock":   lockR,
		"(*sync.RWMutex).RUnlock": unlockR,
		"(*sync.WaitGroup).Add": func(w *W, s *State, args []Value) Value {
			k := "wg" + ptrKey(args[0].(PtrV))
			n, ok := concInt(args[1])
			if !ok {
				panic(execErr{"WaitGroup.Add symbolic"})
			}
			s.setLock(k, s.locks[k]+n)
			s.progress++
			return TupleV{}
		},
		"(*sync.WaitGroup).Done": func(w *W, s *State, args []Value) Value {
			k := "wg" + ptrKey(args[0].(PtrV))
			s.setLock(k, s.locks[k]-1)
			s.progress++
			return TupleV{}
		},
		"(*sync.WaitGroup).Wait": func(w *W, s *State, args []Value) Value {
			k := "wg" + ptrKey(args[0].(PtrV))
			if s.locks[k] > 0 {
				panic(blockReq{"WaitGroup.Wait"})
			}
			return TupleV{}
		},

		// ---- sync/atomic ----
		"sync/atomic.StoreUint32": atomicStore, "sync/atomic.StoreUint64": atomicStore, "sync/atomic.StoreInt32": atomicStore, "sync/atomic.StoreInt64": atomicStore, "sync/atomic.StorePointer": atomicStore, "sync/atomic.StoreUintptr": atomicStore,
		"sync/atomic.LoadUint32": atomicLoad, "sync/atomic.LoadUint64": atomicLoad, "sync/atomic.LoadInt32": atomicLoad, "sync/atomic.LoadInt64": atomicLoad, "sync/atomic.LoadPointer": atomicLoad, "sync/atomic.LoadUintptr": atomicLoad,
		"sync/atomic.AddUint32": atomicAdd, "sync/atomic.AddUint64": atomicAdd, "sync/atomic.AddInt32": atomicAdd, "sync/atomic.AddInt64": atomicAdd,
		"sync/atomic.SwapUint32": atomicSwap, "sync/atomic.SwapUint64": atomicSwap, "sync/atomic.SwapInt32": atomicSwap, "sync/atomic.SwapInt64": atomicSwap, "sync/atomic.SwapPointer": atomicSwap,
		"sync/atomic.CompareAndSwapUint32": atomicCAS, "sync/atomic.CompareAndSwapUint64": atomicCAS, "sync/atomic.CompareAndSwapInt32": atomicCAS, "sync/atomic.CompareAndSwapInt64": atomicCAS, "sync/atomic.CompareAndSwapPointer": atomicCAS,
		"(*sync/atomic.Value).Load": func(w *W, s *State, args []Value) Value {
			return w.load(s, args[0].(PtrV)).(StructV).F[0]
		},
		"(*sync/atomic.Value).Store": func(w *W, s *State, args []Value) Value {
			w.store(s, args[0].(PtrV), StructV{[]Value{args[1]}})
			return TupleV{}
		},
		"maps.clone": func(w *W, s *State, args []Value) Value {
			iv := args[0].(IfaceV)
			m := iv.V.(MapV)
			if m.Nil {
				return iv
			}
			md := *s.heap[m.Obj].(*MapData)
			return IfaceV{T: iv.T, V: MapV{Obj: w.e.alloc(s, &md)}}
		},
		"internal/abi.NoEscape":     func(w *W, s *State, args []Value) Value { return args[0] },
		"internal/abi.Escape":       func(w *W, s *State, args []Value) Value { return args[0] },
		"internal/race.Acquire":     noop,
		"internal/race.Release":     noop,
		"internal/race.ReleaseMerge": noop,
		"internal/race.Disable":     noop,
		"internal/race.Enable":      noop,
		"runtime.KeepAlive":         noop,
		"runtime.Gosched": func(w *W, s *State, args []Value) Value {
			// cooperative yield: advance past the call, let every other runnable goroutine go first
			if len(s.gs) == 0 {
				return TupleV{}
			}
			s.top().pc++
			s.progress++
			panic(blockReq{"yield"})
		},

		// ---- time ----
		"time.Now": func(w *W, s *State, args []Value) Value { return monoTime(w, w.nowExt(s)) },
		"time.Since": func(w *W, s *State, args []Value) Value {
			t := args[0].(StructV)
			return BvBin("bvsub", w.nowExt(s), term(t.F[1]))
		},
		"time.Until": func(w *W, s *State, args []Value) Value {
			t := args[0].(StructV)
			return BvBin("bvsub", term(t.F[1]), w.nowExt(s))
		},
		"time.NewTimer": func(w *W, s *State, args []Value) Value {
			ch := ChanV{Obj: w.e.alloc(s, &ChanData{Cap: 1})}
			v := zeroValue(w.e.timerType).(StructV)
			f := append([]Value(nil), v.F...)
			f[0] = ch
			return PtrV{Obj: w.e.alloc(s, StructV{f})}
		},
		"time.NewTicker": func(w *W, s *State, args []Value) Value {
			// a ticker that never fires by itself (real tickers are outside the claim)
			if d, ok := concInt(args[0]); ok {
				if d <= 0 {
					panic(pathEnd{"panic: non-positive interval for NewTicker"})
				}
			} else if w.decide(s, BvCmp("bvsle", term(args[0]), ConstI(0, 64))) {
				panic(pathEnd{"panic: non-positive interval for NewTicker"})
			}
			ch := ChanV{Obj: w.e.alloc(s, &ChanData{Cap: 1})}
			v := zeroValue(w.e.tickerType).(StructV)
			f := append([]Value(nil), v.F...)
			f[0] = ch
			return PtrV{Obj: w.e.alloc(s, StructV{f})}
		},
		"(*time.Ticker).Stop":  noop,
		"(*time.Ticker).Reset": noop,
		"time.After": func(w *W, s *State, args []Value) Value {
			return ChanV{Obj: w.e.alloc(s, &ChanData{Cap: 1})}
		},
		"time.Sleep":          noop,
		"(*time.Timer).Stop":  func(w *W, s *State, args []Value) Value { return FalseT },
		"(*time.Timer).Reset": func(w *W, s *State, args []Value) Value { return FalseT },
		"time.Parse": func(w *W, s *State, args []Value) Value {
			// digit-only input can never match a layout that needs '-' and ':' (RFC 3339): Parse fails;
			// concrete input is parsed natively; anything else is havoc'd: arbitrary (value, error).
			if str, ok := args[1].(StrV); ok {
				if lay, ok2 := args[0].(StrV); ok2 && lay.IsConc() && str.IsConc() {
					if t, err := time.Parse(lay.S, str.S); err == nil {
						z := zeroValue(w.e.timeType).(StructV)
						f := append([]Value(nil), z.F...)
						f[0] = ConstU(uint64(t.Nanosecond()), 64)
						f[1] = ConstI(t.Unix()+62135596800, 64)
						return TupleV{[]Value{StructV{f}, IfaceV{}}}
					}
					return TupleV{[]Value{zeroValue(w.e.timeType), w.opaqueErr(s, "time.Parse error")}}
				}
				if _, _, digits := numOf(str, false); digits {
					return TupleV{[]Value{zeroValue(w.e.timeType), w.opaqueErr(s, "time.Parse error")}}
				}
			}
			name := fmt.Sprintf("time.Parse.fails#%d", s.ndBase+len(s.nondets))
			fail := Var(name, BoolSort)
			failed := w.decide(s, fail)
			s.nondets = append(s.nondets, NondetRec{Name: name, Kind: "env", T: fail})
			if failed {
				return TupleV{[]Value{zeroValue(w.e.timeType), w.opaqueErr(s, "time.Parse error")}}
			}
			sec := w.newNondet(s, "time.Parse.sec", "env", BV(64))
			s.pc = append(s.pc, BvCmp("bvsge", sec, ConstI(0, 64)), BvCmp("bvslt", sec, ConstI(1<<40, 64)))
			z := zeroValue(w.e.timeType).(StructV)
			f := append([]Value(nil), z.F...)
			f[1] = sec
			return TupleV{[]Value{StructV{f}, IfaceV{}}}
		},
		"(time.Time).Add": func(w *W, s *State, args []Value) Value {
			t := args[0].(StructV)
			d := term(args[1])
			wall := term(t.F[0])
			if wall.IsConst() && wall.C.Bit(63) == 1 {
				// monotonic instant: ext += d (overflow outside the harness bounds)
				f := append([]Value(nil), t.F...)
				f[1] = BvBin("bvadd", term(t.F[1]), d)
				return StructV{f}
			}
			return nil // wall-clock instant: the real Add runs
		},

		// ---- math ----
		"math.Sqrt": func(w *W, s *State, args []Value) Value {
			x := term(args[0])
			if f, ok := x.F64(); ok {
				return ConstF(math.Sqrt(f))
			}
			return mk("fp.sqrt", F64, x)
		},
		"math.sqrt": func(w *W, s *State, args []Value) Value {
			x := term(args[0])
			if f, ok := x.F64(); ok {
				return ConstF(math.Sqrt(f))
			}
			return mk("fp.sqrt", F64, x)
		},
		"math.Abs": func(w *W, s *State, args []Value) Value {
			x := term(args[0])
			if f, ok := x.F64(); ok {
				return ConstF(math.Abs(f))
			}
			return mk("fp.abs", F64, x)
		},
		"math.Floor": func(w *W, s *State, args []Value) Value {
			x := term(args[0])
			if f, ok := x.F64(); ok {
				return ConstF(math.Floor(f))
			}
			return mk("fp.rtn", F64, x)
		},
		"math.Ceil": func(w *W, s *State, args []Value) Value {
			x := term(args[0])
			if f, ok := x.F64(); ok {
				return ConstF(math.Ceil(f))
			}
			return mk("fp.rtp", F64, x)
		},
		"math.Trunc": func(w *W, s *State, args []Value) Value {
			x := term(args[0])
			if f, ok := x.F64(); ok {
				return ConstF(math.Trunc(f))
			}
			return mk("fp.rtz", F64, x)
		},
		"math.IsNaN": func(w *W, s *State, args []Value) Value { return FpIsNaN(term(args[0])) },
		"math.IsInf": func(w *W, s *State, args []Value) Value {
			x := term(args[0])
			sign, ok := concInt(args[1])
			if !ok {
				panic(execErr{"IsInf symbolic sign"})
			}
			if f, ok := x.F64(); ok {
				return ConstBool(math.IsInf(f, sign))
			}
			inf := mk("fp.isInfinite", BoolSort, x)
			switch {
			case sign > 0:
				return And(inf, FpCmp("fp.gt", x, ConstF(0)))
			case sign < 0:
				return And(inf, FpCmp("fp.lt", x, ConstF(0)))
			}
			return inf
		},
		"math.Max": func(w *W, s *State, args []Value) Value {
			x, y := term(args[0]), term(args[1])
			if a, ok := x.F64(); ok {
				if b, ok := y.F64(); ok {
					return ConstF(math.Max(a, b))
				}
			}
			// NaN if either is NaN; +Inf dominates; signed zeros: Max(-0,+0)=+0 (fp.max leaves that unspecified; equal compares pick y then)
			nan := Or(FpIsNaN(x), FpIsNaN(y))
			return Ite(nan, ConstF(math.NaN()), Ite(FpCmp("fp.gt", x, y), x, Ite(FpCmp("fp.gt", y, x), y, Ite(mk("fp.isNegative", BoolSort, x), y, x))))
		},
		"math.Min": func(w *W, s *State, args []Value) Value {
			x, y := term(args[0]), term(args[1])
			if a, ok := x.F64(); ok {
				if b, ok := y.F64(); ok {
					return ConstF(math.Min(a, b))
				}
			}
			nan := Or(FpIsNaN(x), FpIsNaN(y))
			return Ite(nan, ConstF(math.NaN()), Ite(FpCmp("fp.lt", x, y), x, Ite(FpCmp("fp.lt", y, x), y, Ite(mk("fp.isNegative", BoolSort, x), x, y))))
		},
		"math.Atan": func(w *W, s *State, args []Value) Value {
			x := term(args[0])
			if f, ok := x.F64(); ok {
				return ConstF(math.Atan(f))
			}
			a := UF("atan", F64, x)
			// contract: |atan(x)| <= atan(3)+1ulp whenever |x| <= 3 ; NaN only for NaN
			hi := ConstF(1.2490457723982546)
			lo := ConstF(-1.2490457723982546)
			in := And(FpCmp("fp.leq", x, ConstF(3)), FpCmp("fp.geq", x, ConstF(-3)))
			s.pc = append(s.pc, Or(Not(in), And(FpCmp("fp.leq", a, hi), FpCmp("fp.geq", a, lo))))
			s.pc = append(s.pc, Eq(FpIsNaN(a), FpIsNaN(x)))
			return a
		},
		"math.Modf": func(w *W, s *State, args []Value) Value {
			x := term(args[0])
			if f, ok := x.F64(); ok {
				i, fr := math.Modf(f)
				return TupleV{[]Value{ConstF(i), ConstF(fr)}}
			}
			ip := mk("fp.rtz", F64, x)
			return TupleV{[]Value{ip, FpBin("fp.sub", x, ip)}}
		},
		"math.Float64bits": func(w *W, s *State, args []Value) Value {
			x := term(args[0])
			if x.IsConst() {
				return ConstBV(x.C, 64)
			}
			if x.Op == "to_fp_bits" { // Float64bits(Float64frombits(b)) == b (bit-preserving in Go)
				return x.Args[0]
			}
			// fresh bits constrained by to_fp(bits) == x (NaN payloads collapse: stated)
			b := Var(fmt.Sprintf("f64bits!%d", x.id), BV(64))
			s.pc = append(s.pc, Or(Eq(mk("to_fp_bits", F64, b), x), And(FpIsNaN(x), Eq(b, ConstU(0x7FF8000000000001, 64)))))
			return b
		},
		"math.Float64frombits": func(w *W, s *State, args []Value) Value {
			b := term(args[0])
			if b.IsConst() {
				return ConstF(math.Float64frombits(b.C.Uint64()))
			}
			return mk("to_fp_bits", F64, b)
		},
		"math.Float32bits": func(w *W, s *State, args []Value) Value {
			x := term(args[0])
			if x.IsConst() {
				return ConstBV(x.C, 32)
			}
			if x.Op == "to_fp_bits" {
				return x.Args[0]
			}
			b := Var(fmt.Sprintf("f32bits!%d", x.id), BV(32))
			s.pc = append(s.pc, Or(Eq(mk("to_fp_bits", F32, b), x), And(FpIsNaN(x), Eq(b, ConstU(0x7FC00001, 32)))))
			return b
		},
		"math.Float32frombits": func(w *W, s *State, args []Value) Value {
			b := term(args[0])
			if b.IsConst() {
				return ConstF32(math.Float32frombits(uint32(b.C.Uint64())))
			}
			return mk("to_fp_bits", F32, b)
		},

		// ---- regexp: the library is environment; patterns and subjects must be concrete ----
		"regexp.Compile": func(w *W, s *State, args []Value) Value {
			pat, ok := args[0].(StrV)
			if !ok || !pat.IsConc() {
				panic(execErr{"regexp.Compile of a symbolic pattern"})
			}
			w.e.noteModel("regexp:native on concrete pattern and subject")
			if _, err := regexp.Compile(pat.S); err != nil {
				return TupleV{[]Value{PtrV{Nil: true}, w.opaqueErr(s, err.Error())}}
			}
			return TupleV{[]Value{PtrV{Obj: w.e.alloc(s, StructV{[]Value{pat}})}, IfaceV{}}}
		},
		"(*regexp.Regexp).MatchString": func(w *W, s *State, args []Value) Value {
			re := args[0].(PtrV)
			if re.Nil {
				panic(pathEnd{"panic: nil pointer dereference (regexp)"})
			}
			st, ok := w.load(s, re).(StructV)
			if !ok || len(st.F) != 1 {
				panic(execErr{"MatchString on a Regexp the engine did not compile"})
			}
			sub, ok := args[1].(StrV)
			if !ok || !sub.IsConc() {
				panic(execErr{"(*regexp.Regexp).MatchString of a symbolic subject"})
			}
			return ConstBool(regexp.MustCompile(st.F[0].(StrV).S).MatchString(sub.S))
		},

		// ---- math/rand ----
		"math/rand.Intn":     randIntn(64),
		"math/rand.Int63n":   randIntn(64),
		"math/rand.Int31n":   randIntn(32),
		"math/rand/v2.IntN":  randIntn(64),
		"math/rand/v2.Int64N": randIntn(64),
		"math/rand.Uint64": func(w *W, s *State, args []Value) Value { return w.newNondet(s, "rand.Uint64", "env", BV(64)) },
		"math/rand.Int63": func(w *W, s *State, args []Value) Value {
			v := w.newNondet(s, "rand.Int63", "env", BV(64))
			s.pc = append(s.pc, BvCmp("bvsge", v, ConstI(0, 64)))
			return v
		},
		"math/rand.Float64": func(w *W, s *State, args []Value) Value {
			v := w.newNondet(s, "rand.Float64", "env", F64)
			s.pc = append(s.pc, FpCmp("fp.geq", v, ConstF(0)), FpCmp("fp.lt", v, ConstF(1)))
			return v
		},

		// ---- fmt / errors / strconv ----
		"fmt.Sprintf": func(w *W, s *State, args []Value) Value { return w.sprintf(s, args[0], args[1].(SliceV)) },
		"fmt.Sprint": func(w *W, s *State, args []Value) Value {
			return w.sprintf(s, StrV{S: "%v"}, args[0].(SliceV))
		},
		"fmt.Errorf": func(w *W, s *State, args []Value) Value {
			msg := "opaque error"
			if f, ok := args[0].(StrV); ok && f.IsConc() {
				msg = f.S
			}
			return w.opaqueErr(s, msg)
		},
		"fmt.Println": noop, "fmt.Printf": noop, "fmt.Print": noop, "fmt.Fprintf": func(w *W, s *State, args []Value) Value {
			return TupleV{[]Value{ConstI(0, 64), IfaceV{}}}
		},
		"strconv.Itoa": func(w *W, s *State, args []Value) Value {
			t := term(args[0])
			if t.IsConst() {
				return StrV{S: signed(t.C, 64).String()}
			}
			return w.decString(s, t, true)
		},
		"strconv.FormatInt": func(w *W, s *State, args []Value) Value {
			t := term(args[0])
			base, _ := concInt(args[1])
			if t.IsConst() {
				return StrV{S: signed(t.C, 64).Text(base)}
			}
			if base != 10 {
				panic(execErr{"FormatInt symbolic non-decimal"})
			}
			return w.decString(s, t, true)
		},
		"strconv.FormatUint": func(w *W, s *State, args []Value) Value {
			t := term(args[0])
			base, _ := concInt(args[1])
			if t.IsConst() {
				return StrV{S: t.C.Text(base)}
			}
			if base != 10 {
				panic(execErr{"FormatUint symbolic non-decimal"})
			}
			return w.decString(s, t, false)
		},
		"strconv.FormatBool": func(w *W, s *State, args []Value) Value {
			t := term(args[0])
			if v, ok := t.BoolVal(); ok {
				return StrV{S: strconv.FormatBool(v)}
			}
			if w.decide(s, t) {
				return StrV{S: "true"}
			}
			return StrV{S: "false"}
		},
		"strconv.FormatFloat": func(w *W, s *State, args []Value) Value {
			t := term(args[0])
			if f, ok := t.F64(); ok {
				fm, _ := concInt(args[1])
				prec, _ := concInt(args[2])
				bits, _ := concInt(args[3])
				return StrV{S: strconv.FormatFloat(f, byte(fm), prec, bits)}
			}
			// injective UF rendering: token distinct per numeric value (stated model)
			fm, _ := concInt(args[1])
			prec, _ := concInt(args[2])
			return w.floatString(s, t, byte(fm), prec)
		},
		"strconv.ParseFloat": func(w *W, s *State, args []Value) Value {
			str := args[0].(StrV)
			if str.IsConc() {
				bits, _ := concInt(args[1])
				f, err := strconv.ParseFloat(str.S, bits)
				if err != nil {
					return TupleV{[]Value{ConstF(f), w.opaqueErr(s, err.Error())}}
				}
				return TupleV{[]Value{ConstF(f), IfaceV{}}}
			}
			n, k, ok := numOf(str, true)
			if !ok {
				return w.havocParse(s, "ParseFloat", F64)
			}
			return TupleV{[]Value{FpBin("fp.div", convU64ToF(n), ConstF(float64(pow10(k)))), IfaceV{}}}
		},
		"strconv.ParseInt":  parseIntIntr(true),
		"strconv.ParseUint": parseIntIntr(false),
		"strconv.Atoi": func(w *W, s *State, args []Value) Value {
			str := args[0].(StrV)
			if str.IsConc() {
				v, err := strconv.Atoi(str.S)
				if err != nil {
					return TupleV{[]Value{ConstI(int64(v), 64), w.opaqueErr(s, err.Error())}}
				}
				return TupleV{[]Value{ConstI(int64(v), 64), IfaceV{}}}
			}
			n, k, ok := numOf(str, false)
			if !ok || k != 0 {
				return w.havocParse(s, "Atoi", BV(64))
			}
			return TupleV{[]Value{n, IfaceV{}}}
		},

		// ---- hashes ----
		"github.com/dgryski/go-wyhash.Hash": func(w *W, s *State, args []Value) Value {
			ts := sliceTerms(s, args[0].(SliceV))
			seed := term(args[1])
			if s.hashInjective {
				// stated assumption of the harness: the hash is collision-free on the values in play.
				// Every application (concrete input too) is an uninterpreted value h from which an
				// inverse recovers the length, the seed and every input byte.
				h := UF(fmt.Sprintf("wyhashinj_%d", len(ts)), BV(64), append(ts, seed)...)
				s.pc = append(s.pc, Eq(UF("wyhashinj_len", BV(8), h), ConstU(uint64(len(ts)), 8)), Eq(UF("wyhashinj_seed", BV(64), h), seed))
				for i, t := range ts {
					s.pc = append(s.pc, Eq(UF(fmt.Sprintf("wyhashinj_b%d", i), BV(8), h), t))
				}
				return h
			}
			if b, ok := allConst(ts); ok && seed.IsConst() {
				return ConstU(wyhash.Hash(b, seed.C.Uint64()), 64)
			}
			return UF(fmt.Sprintf("wyhash_%d", len(ts)), BV(64), append(ts, seed)...)
		},
		zz + "AssumeHashInjective": func(w *W, s *State, args []Value) Value {
			s.hashInjective = true
			w.e.noteModel("assumption:wyhash collision-free on the values in play")
			return TupleV{}
		},
		"strconv.AppendInt": func(w *W, s *State, args []Value) Value {
			t := term(args[1])
			base, _ := concInt(args[2])
			var str StrV
			if t.IsConst() {
				str = StrV{S: signed(t.C, 64).Text(base)}
			} else if base == 10 {
				str = w.decString(s, t, true).(StrV)
			} else {
				panic(execErr{"AppendInt symbolic non-decimal"})
			}
			return w.builtinAppendStr(s, args[0].(SliceV), str)
		},
		"strconv.AppendBool": func(w *W, s *State, args []Value) Value {
			t := term(args[1])
			str := StrV{S: "false"}
			if w.decide(s, t) {
				str = StrV{S: "true"}
			}
			return w.builtinAppendStr(s, args[0].(SliceV), str)
		},
		"strconv.AppendFloat": func(w *W, s *State, args []Value) Value {
			t := term(args[1])
			var str StrV
			if f, ok := t.F64(); ok {
				fm, _ := concInt(args[2])
				prec, _ := concInt(args[3])
				bits, _ := concInt(args[4])
				str = StrV{S: strconv.FormatFloat(f, byte(fm), prec, bits)}
			} else {
				fm, _ := concInt(args[2])
				prec, _ := concInt(args[3])
				str = w.floatString(s, t, byte(fm), prec)
			}
			return w.builtinAppendStr(s, args[0].(SliceV), str)
		},

		zz + "UF32sha1": func(w *W, s *State, args []Value) Value {
			ts := strBytes(args[0].(StrV))
			if b, ok := allConst(ts); ok {
				sum := sha1.Sum(b)
				return ConstU(uint64(sum[0])<<24|uint64(sum[1])<<16|uint64(sum[2])<<8|uint64(sum[3]), 32)
			}
			return UF(fmt.Sprintf("sha1w0_%d", len(ts)), BV(32), ts...)
		},
		zz + "Wyhash": func(w *W, s *State, args []Value) Value {
			ts := strBytes(args[0].(StrV))
			seed := term(args[1])
			if b, ok := allConst(ts); ok && seed.IsConst() {
				return ConstU(wyhash.Hash(b, seed.C.Uint64()), 64)
			}
			return UF(fmt.Sprintf("wyhash_%d", len(ts)), BV(64), append(ts, seed)...)
		},
		"crypto/sha1.Sum": func(w *W, s *State, args []Value) Value {
			ts := sliceTerms(s, args[0].(SliceV))
			el := make([]Value, 20)
			if b, ok := allConst(ts); ok {
				sum := sha1.Sum(b)
				for i := range el {
					el[i] = ConstU(uint64(sum[i]), 8)
				}
				return ArrayV{el}
			}
			// uninterpreted: five 32-bit words of the input bytes
			for wd := 0; wd < 5; wd++ {
				u := UF(fmt.Sprintf("sha1w%d_%d", wd, len(ts)), BV(32), ts...)
				for k := 0; k < 4; k++ {
					el[wd*4+k] = Extract(u, 31-8*k, 24-8*k)
				}
			}
			return ArrayV{el}
		},

		// ---- otel ----
		"github.com/honeycombio/refinery/internal/otelutil.StartSpan":      otelStart,
		"github.com/honeycombio/refinery/internal/otelutil.StartSpanWith":  otelStart,
		"github.com/honeycombio/refinery/internal/otelutil.StartSpanMulti": otelStart,
		"github.com/honeycombio/refinery/internal/otelutil.AddSpanField":   noop,
		"github.com/honeycombio/refinery/internal/otelutil.AddSpanFields":  noop,
		"github.com/honeycombio/refinery/internal/otelutil.AddException":   noop,

		// ---- cuckoo filter as exact set ----
		"github.com/panmari/cuckoofilter.NewFilter": func(w *W, s *State, args []Value) Value {
			id := w.e.alloc(s, &MapData{})
			return PtrV{Obj: id}
		},
		"(*github.com/panmari/cuckoofilter.Filter).Insert": func(w *W, s *State, args []Value) Value {
			p := args[0].(PtrV)
			key := w.bytesToStr(s, args[1].(SliceV))
			w.mapUpdate(s, MapV{Obj: p.Obj}, key, TrueT)
			return TrueT
		},
		"(*github.com/panmari/cuckoofilter.Filter).Lookup": func(w *W, s *State, args []Value) Value {
			p := args[0].(PtrV)
			key := w.bytesToStr(s, args[1].(SliceV))
			_, ok := w.mapLookup(s, MapV{Obj: p.Obj}, key, types.Typ[types.Bool])
			return ok
		},
		"(*github.com/panmari/cuckoofilter.Filter).Count": func(w *W, s *State, args []Value) Value {
			p := args[0].(PtrV)
			md := s.heap[p.Obj].(*MapData)
			return ConstU(uint64(len(md.Keys)), 64)
		},
		"(*github.com/panmari/cuckoofilter.Filter).LoadFactor": func(w *W, s *State, args []Value) Value {
			return ConstF(0)
		},
		"(*github.com/panmari/cuckoofilter.Filter).Reset": func(w *W, s *State, args []Value) Value {
			p := args[0].(PtrV)
			s.heap[p.Obj] = &MapData{}
			return TupleV{}
		},
		"os.Hostname": func(w *W, s *State, args []Value) Value {
			return TupleV{[]Value{StrV{S: "verif-host"}, IfaceV{}}}
		},
		"os.Getenv": func(w *W, s *State, args []Value) Value { return StrV{} },
	}
}

func convU64ToF(n *Term) *Term {
	if n.IsConst() {
		return ConstF(float64(n.C.Uint64()))
	}
	return mk("to_fp_u", F64, n)
}

func (w *W) havocParse(s *State, what string, sort Sort) Value {
	// decide before any mutation: the nondet is registered only after the fork point
	name := fmt.Sprintf("%s.fails#%d", what, s.ndBase+len(s.nondets))
	fail := Var(name, BoolSort)
	failed := w.decide(s, fail)
	s.nondets = append(s.nondets, NondetRec{Name: name, Kind: "env", T: fail})
	if failed {
		return TupleV{[]Value{zeroValueSort(sort), w.opaqueErr(s, what+" error")}}
	}
	return TupleV{[]Value{w.newNondet(s, what+".val", "env", sort), IfaceV{}}}
}

func zeroValueSort(s Sort) Value {
	switch s.K {
	case KBool:
		return FalseT
	case KFP:
		return constFP(0, s)
	}
	return ConstU(0, s.W)
}

func parseIntIntr(sg bool) intrinsic {
	return func(w *W, s *State, args []Value) Value {
		str := args[0].(StrV)
		base, okb := concInt(args[1])
		bits, okz := concInt(args[2])
		if str.IsConc() && okb && okz {
			if sg {
				v, err := strconv.ParseInt(str.S, base, bits)
				if err != nil {
					return TupleV{[]Value{ConstI(v, 64), w.opaqueErr(s, err.Error())}}
				}
				return TupleV{[]Value{ConstI(v, 64), IfaceV{}}}
			}
			v, err := strconv.ParseUint(str.S, base, bits)
			if err != nil {
				return TupleV{[]Value{ConstU(v, 64), w.opaqueErr(s, err.Error())}}
			}
			return TupleV{[]Value{ConstU(v, 64), IfaceV{}}}
		}
		n, k, ok := numOf(str, false)
		if !ok || k != 0 || (base != 10 && base != 0) || (bits != 64 && bits != 0) {
			return w.havocParse(s, "ParseInt", BV(64))
		}
		if base == 0 && str.Len() > 1 {
			// base 0: a leading "0" selects octal (or 0x / 0b / 0o): not the decimal value
			if w.decide(s, Eq(str.Byte(0), ConstU('0', 8))) {
				return w.havocParse(s, "ParseInt(base 0, leading zero)", BV(64))
			}
		}
		if sg {
			// value must fit int64: digits <= 19 and n <= MaxInt64, else range error
			if w.decide(s, BvCmp("bvslt", n, ConstI(0, 64))) {
				return TupleV{[]Value{ConstI(math.MaxInt64, 64), w.opaqueErr(s, "value out of range")}}
			}
		}
		return TupleV{[]Value{n, IfaceV{}}}
	}
}

func randIntn(bits int) intrinsic {
	return func(w *W, s *State, args []Value) Value {
		n := term(args[len(args)-1])
		if w.decide(s, BvCmp("bvsle", n, ConstI(0, n.S.W))) {
			panic(pathEnd{"panic: invalid argument to rand.Intn"})
		}
		v := w.newNondet(s, "rand.Intn", "env", BV(n.S.W))
		s.pc = append(s.pc, BvCmp("bvsge", v, ConstI(0, n.S.W)), BvCmp("bvslt", v, n))
		return v
	}
}

// decString renders a symbolic integer. When the path condition confines it to [-999,999]
// the decimal digits are computed exactly (case split on sign and digit count). Otherwise
// it is an injective uninterpreted token: 8 symbolic bytes uf_dec(n)[i] over the value
// widened to 64 bits, so equal numbers give equal strings whatever their Go type and
// different numbers different strings; nothing else is known about the bytes.
func (w *W) decString(s *State, t *Term, sg bool) Value {
	t64 := t
	if t.S.W < 64 {
		t64 = Resize(t, 64, sg)
	}
	if !sg && t.S.W == 64 {
		// an unsigned value >= 2^63 is not the rendering of any int64
		if r := w.feasible(s, BvCmp("bvslt", t64, ConstI(0, 64))); r.Status != "unsat" {
			lo := w.ufString(s, "dec", t64).(StrV)
			hi := w.ufString(s, "decu", t64).(StrV)
			neg := BvCmp("bvslt", t64, ConstI(0, 64))
			bs := make([]*Term, len(lo.Sym))
			for i := range bs {
				bs[i] = Ite(neg, hi.Sym[i], lo.Sym[i])
			}
			return StrV{Sym: bs}
		}
	}
	out := Or(BvCmp("bvslt", t64, ConstI(-999, 64)), BvCmp("bvslt", ConstI(999, 64), t64))
	if r := w.feasible(s, out); r.Status != "unsat" {
		return w.ufString(s, "dec", t64)
	}
	neg := w.decide(s, BvCmp("bvslt", t64, ConstI(0, 64)))
	m := t64
	if neg {
		m = BvNeg(t64)
	}
	nd := 1
	if w.decide(s, BvCmp("bvslt", ConstI(9, 64), m)) {
		nd = 2
		if w.decide(s, BvCmp("bvslt", ConstI(99, 64), m)) {
			nd = 3
		}
	}
	w.e.noteModel("decimal:exact-digits(|n|<=999)")
	m16 := Extract(m, 15, 0)
	digit := func(div uint64) *Term {
		d := BvBin("bvurem", BvBin("bvudiv", m16, ConstU(div, 16)), ConstU(10, 16))
		return BvBin("bvadd", Extract(d, 7, 0), ConstU('0', 8))
	}
	var bs []*Term
	if nd >= 3 {
		bs = append(bs, digit(100))
	}
	if nd >= 2 {
		bs = append(bs, digit(10))
	}
	bs = append(bs, digit(1))
	res := StrV{Sym: bs}
	if neg {
		return strConcat(StrV{S: "-"}, res)
	}
	return res
}

func (w *W) ufString(s *State, fn string, t *Term) Value {
	const width = 8
	bs := make([]*Term, width)
	for i := range bs {
		bs[i] = UF(fmt.Sprintf("%s_%d_%d_%d", fn, int(t.S.K), t.S.W, i), BV(8), t)
	}
	// injectivity is obtained by making the first bytes encode the argument itself
	// when it fits; here: the bytes are UF(t), and an inverse UF recovers t.
	inv := UF(fmt.Sprintf("%s_inv_%d_%d", fn, int(t.S.K), t.S.W), t.S, bs...)
	if t.S.K == KFP {
		s.pc = append(s.pc, Or(FpEq(inv, t), FpIsNaN(t)))
	} else {
		s.pc = append(s.pc, Eq(inv, t))
	}
	// renderings of different families never coincide: the decimal digits of an int64, those of a
	// uint64 beyond the int64 range, and a float's rendering that is not a plain integer
	switch {
	case fn == "dec":
		s.pc = append(s.pc, Eq(bs[width-1], ConstU(0xFE, 8)))
	case fn == "decu":
		s.pc = append(s.pc, Eq(bs[width-1], ConstU(0xFD, 8)))
	case strings.HasPrefix(fn, "fmtfloat"):
		s.pc = append(s.pc, Eq(bs[width-1], ConstU(0xFF, 8)))
	}
	w.e.noteModel("uf-string:" + fn)
	return StrV{Sym: bs}
}

// floatString renders a symbolic float. In the shortest formats ('f', 'g' and %v with precision
// -1) a value that is integral and inside the int64 range (and not -0) prints exactly like that
// integer, so it gets the integer's token; every other value gets an injective token of the
// float family, which coincides with no integer's.
func (w *W) floatString(s *State, t *Term, fm byte, prec int) StrV {
	if prec != -1 || (fm != 'f' && fm != 'g' && fm != 'v') {
		return w.ufString(s, fmt.Sprintf("fmtfloat_%c%d", fm, prec), t).(StrV)
	}
	t64 := t
	if t.S != F64 {
		t64 = mk("to_fp_f", F64, t)
	}
	lim := math.Ldexp(1, 63)
	integral := And(FpEq(t64, mk("fp.rtz", F64, t64)), And(FpCmp("fp.geq", t64, ConstF(-lim)), FpCmp("fp.lt", t64, ConstF(lim))))
	if fm != 'f' {
		// shortest %g switches to exponent form from 1e6 on ("1e+06"), which no integer prints as
		integral = And(integral, And(FpCmp("fp.gt", t64, ConstF(-1e6)), FpCmp("fp.lt", t64, ConstF(1e6))))
	}
	integral = And(integral, Not(And(mk("fp.isZero", BoolSort, t64), mk("fp.isNegative", BoolSort, t64))))
	d := w.ufString(s, "dec", mk("fp.to_sbv", BV(64), t64)).(StrV)
	u := w.ufString(s, "fmtfloat", t).(StrV)
	bs := make([]*Term, len(u.Sym))
	for i := range bs {
		bs[i] = Ite(integral, d.Sym[i], u.Sym[i])
	}
	return StrV{Sym: bs}
}

func (w *W) sprintf(s *State, fv Value, argsl SliceV) Value {
	f, ok := fv.(StrV)
	if !ok || !f.IsConc() {
		w.e.noteModel("fmt.Sprintf:opaque")
		return StrV{S: "<opaque-fmt>"}
	}
	var args []Value
	if !argsl.Nil {
		arr := s.heap[argsl.Obj].(ArrayV)
		args = arr.E[argsl.Off : argsl.Off+argsl.Len]
	}
	out := StrV{}
	ai := 0
	format := f.S
	for i := 0; i < len(format); i++ {
		c := format[i]
		if c != '%' {
			j := i
			for j < len(format) && format[j] != '%' {
				j++
			}
			out = strConcat(out, StrV{S: format[i:j]})
			i = j - 1
			continue
		}
		if i+1 >= len(format) {
			break
		}
		i++
		verb := format[i]
		if verb == '%' {
			out = strConcat(out, StrV{S: "%"})
			continue
		}
		// skip flags/width
		sawPlus := false
		for (verb == '+' || verb == '-' || verb == '#' || verb == '0' || verb == '.' || (verb >= '1' && verb <= '9')) && i+1 < len(format) {
			if verb == '+' {
				sawPlus = true
			}
			i++
			verb = format[i]
		}
		if sawPlus && verb == 'v' {
			verb = 'V'
		}
		if ai >= len(args) {
			out = strConcat(out, StrV{S: "%!" + string(verb) + "(MISSING)"})
			continue
		}
		a := args[ai]
		ai++
		out = strConcat(out, w.fmtArg(s, a, verb))
	}
	return out
}

func pv(plus bool) byte {
	if plus {
		return 'V'
	}
	return 'v'
}

func (w *W) fmtArg(s *State, a Value, verb byte) StrV {
	plus := verb == 'V' // internal spelling of %+v
	if plus {
		verb = 'v'
	}
	iv, ok := a.(IfaceV)
	if !ok {
		return StrV{S: "<fmt?>"}
	}
	if iv.T == nil {
		return StrV{S: "<nil>"}
	}
	switch v := iv.V.(type) {
	case StrV:
		if verb == 'q' {
			if v.IsConc() {
				return StrV{S: strconv.Quote(v.S)}
			}
			return strConcat(strConcat(StrV{S: "\""}, v), StrV{S: "\""})
		}
		return v
	case *Term:
		if v.IsConst() {
			switch v.S.K {
			case KBool:
				b, _ := v.BoolVal()
				return StrV{S: strconv.FormatBool(b)}
			case KBV:
				if isSigned(iv.T) {
					return StrV{S: signed(v.C, v.S.W).String()}
				}
				return StrV{S: v.C.String()}
			case KFP:
				f, _ := v.F64()
				if verb == 'v' || verb == 'g' {
					return StrV{S: strconv.FormatFloat(f, 'g', -1, v.S.W)}
				}
				return StrV{S: fmt.Sprintf("%"+string(verb), f)}
			}
		}
		if v.S.K == KBool {
			if w.decide(s, v) {
				return StrV{S: "true"}
			}
			return StrV{S: "false"}
		}
		if v.S.K == KBV {
			return w.decString(s, v, isSigned(iv.T)).(StrV)
		}
		if verb == 'v' || verb == 'g' {
			return w.floatString(s, v, 'g', -1)
		}
		return w.ufString(s, "fmtfloat_"+string(verb), v).(StrV)
	}
	if r, ok := w.fmtComposite(s, iv.T, iv.V, plus); ok {
		return r
	}
	w.e.noteModel("fmt.Sprintf:opaque-arg")
	return StrV{S: "<opaque-arg>"}
}

// fmtComposite renders slices, arrays, structs and pointers-to-struct the way %v / %+v do.
func (w *W) fmtComposite(s *State, t types.Type, v Value, plus bool) (StrV, bool) {
	switch u := t.Underlying().(type) {
	case *types.Slice:
		sl, ok := v.(SliceV)
		if !ok {
			return StrV{}, false
		}
		out := StrV{S: "["}
		if !sl.Nil && sl.Len > 0 {
			arr := s.heap[sl.Obj].(ArrayV)
			for i := 0; i < sl.Len; i++ {
				if i > 0 {
					out = strConcat(out, StrV{S: " "})
				}
				out = strConcat(out, w.fmtArg(s, IfaceV{T: u.Elem(), V: arr.E[sl.Off+i]}, pv(plus)))
			}
		}
		return strConcat(out, StrV{S: "]"}), true
	case *types.Struct:
		st, ok := v.(StructV)
		if !ok {
			return StrV{}, false
		}
		out := StrV{S: "{"}
		for i := 0; i < u.NumFields(); i++ {
			if i > 0 {
				out = strConcat(out, StrV{S: " "})
			}
			if plus {
				out = strConcat(out, StrV{S: u.Field(i).Name() + ":"})
			}
			out = strConcat(out, w.fmtArg(s, IfaceV{T: u.Field(i).Type(), V: st.F[i]}, pv(plus)))
		}
		return strConcat(out, StrV{S: "}"}), true
	case *types.Pointer:
		p, ok := v.(PtrV)
		if !ok || p.Nil {
			return StrV{S: "<nil>"}, ok
		}
		if _, isStruct := u.Elem().Underlying().(*types.Struct); isStruct {
			r, ok := w.fmtComposite(s, u.Elem(), w.load(s, p), plus)
			if ok {
				return strConcat(StrV{S: "&"}, r), true
			}
		}
	}
	return StrV{}, false
}

func (s *State) setLock(k string, v int) {
	nl := make(map[string]int, len(s.locks)+1)
	for a, b := range s.locks {
		nl[a] = b
	}
	if v == 0 {
		delete(nl, k)
	} else {
		nl[k] = v
	}
	s.locks = nl
}

func lockW(w *W, s *State, args []Value) Value {
	k := ptrKey(args[0].(PtrV))
	if s.locks[k] != 0 {
		panic(blockReq{"mutex held"})
	}
	s.setLock(k, -1)
	return TupleV{}
}
func tryLockW(w *W, s *State, args []Value) Value {
	k := ptrKey(args[0].(PtrV))
	if s.locks[k] != 0 {
		return FalseT
	}
	s.setLock(k, -1)
	return TrueT
}
func unlockW(w *W, s *State, args []Value) Value {
	pre := w.preemptChoice(s)
	k := ptrKey(args[0].(PtrV))
	if s.locks[k] != -1 {
		panic(pathEnd{"panic: sync: unlock of unlocked mutex"})
	}
	s.setLock(k, 0)
	s.progress++
	if pre {
		w.preemptNow(s)
	}
	return TupleV{}
}

// preemptChoice: with preemption enabled (zz.PreemptAtSync) and another goroutine runnable, the
// scheduler may switch the running goroutine out at this point: a fresh schedule choice that the
// engine forks on. It must be called before the instruction mutates the state (decide re-executes
// the instruction); preemptNow performs the switch once the instruction's effect is in place.
func (w *W) preemptChoice(s *State) bool {
	if s.preemptsLeft <= 0 || len(s.gs) < 2 {
		return false
	}
	// only at an ordinary call instruction: a deferred unlock runs inside RunDefers, where the
	// frame cannot be resumed "after the call"
	fr := s.top()
	if fr.pc >= len(fr.block.Instrs) {
		return false
	}
	if _, isCall := fr.block.Instrs[fr.pc].(*ssa.Call); !isCall {
		return false
	}
	other := false
	for i, g := range s.gs {
		if i != s.cur && !g.done && (g.blockedAt < 0 || g.blockedAt < s.progress) {
			other = true
		}
	}
	if !other {
		return false
	}
	name := fmt.Sprintf("preempt#%d", s.ndBase+len(s.nondets))
	v := Var(name, BoolSort)
	b := w.decide(s, v)
	s.nondets = append(s.nondets, NondetRec{Name: name, Kind: "sched", T: v})
	w.e.noteModel("preemption at synchronisation points (bounded)")
	return b
}

func (w *W) preemptNow(s *State) {
	s.preemptsLeft--
	s.top().pc++
	s.progress++
	panic(blockReq{"yield"})
}
func lockR(w *W, s *State, args []Value) Value {
	k := ptrKey(args[0].(PtrV))
	if s.locks[k] < 0 {
		panic(blockReq{"rwmutex write-held"})
	}
	s.setLock(k, s.locks[k]+1)
	return TupleV{}
}
func unlockR(w *W, s *State, args []Value) Value {
	k := ptrKey(args[0].(PtrV))
	if s.locks[k] <= 0 {
		panic(pathEnd{"panic: sync: RUnlock of unlocked RWMutex"})
	}
	s.setLock(k, s.locks[k]-1)
	s.progress++
	return TupleV{}
}

func atomicStore(w *W, s *State, args []Value) Value {
	w.store(s, args[0].(PtrV), args[1])
	return TupleV{}
}
func atomicLoad(w *W, s *State, args []Value) Value { return w.load(s, args[0].(PtrV)) }
func atomicAdd(w *W, s *State, args []Value) Value {
	p := args[0].(PtrV)
	nv := BvBin("bvadd", term(w.load(s, p)), term(args[1]))
	w.store(s, p, nv)
	return nv
}
func atomicSwap(w *W, s *State, args []Value) Value {
	p := args[0].(PtrV)
	old := w.load(s, p)
	w.store(s, p, args[1])
	return old
}
func atomicCAS(w *W, s *State, args []Value) Value {
	p := args[0].(PtrV)
	old := w.load(s, p)
	if w.decide(s, valueEq(old, args[1])) {
		w.store(s, p, args[2])
		return TrueT
	}
	return FalseT
}

func otelStart(w *W, s *State, args []Value) Value {
	return TupleV{[]Value{args[0], IfaceV{T: w.e.noopSpan, V: zeroValue(w.e.noopSpan)}}}
}

func fmtModel(m map[string]*big.Int) string {
	var ks []string
	for k := range m {
		ks = append(ks, k)
	}
	sort.Strings(ks)
	var sb strings.Builder
	for _, k := range ks {
		fmt.Fprintf(&sb, "%s=%s ", k, m[k].String())
	}
	return sb.String()
}

// assert discharges one obligation.
func (w *W) assert(s *State, c *Term, msg string, known string) {
	e := w.e
	site := siteOf(s)
	atomic.AddInt64(&e.asserts, 1)
	e.mu.Lock()
	e.sitesHit[site]++
	e.mu.Unlock()
	q := append(append([]*Term(nil), s.pc...), Not(c))
	var r Result
	nc := Not(c)
	if _, isConst := nc.BoolVal(); isConst {
		r = w.solver.Check(q, true, QOblig)
	} else {
		// sliced obligation first (sound for unsat); a sat answer is re-asked on the full
		// path condition to obtain a complete counterexample
		sl := append(sliceFor(s.pc, nc), nc)
		if st, ok := cachedVerdict(sl); ok && st == "unsat" {
			atomic.AddInt64(&stats.CacheHits, 1)
			r = Result{Status: "unsat", Backend: "cache"}
		} else {
			r = w.solver.Check(sl, false, QOblig)
			if r.Status == "unsat" {
				verdictCache.Store(conjKey(sl), "unsat")
				q = sl
			} else {
				r = w.solver.Check(q, true, QOblig)
			}
		}
	}
	switch r.Status {
	case "unsat":
		atomic.AddInt64(&e.assertsOK, 1)
		if r.Backend != "fold" {
			e.noteDischarged(q)
		}
	case "sat":
		kind := "assert"
		if known != "" {
			kind = "known"
		}
		e.addFinding(Finding{Kind: kind, Msg: msg, Where: site, Model: r.Model, Nondets: append([]NondetRec(nil), s.nondets...), Known: known, Site: site})
	default:
		e.addFinding(Finding{Kind: "inconclusive", Msg: "solver unknown on assertion: " + msg + " " + firstLine(r.Detail), Where: site, Site: site})
	}
	// continue the path assuming the assertion holds
	// (if it cannot hold on this path at all, the path goes on without it so that the
	// remaining obligations of the harness are still examined)
	if _, ok := c.BoolVal(); ok {
		return
	}
	if r.Status != "unsat" {
		if rr := w.solver.Check(append(append([]*Term(nil), s.pc...), c), false, QFeas); rr.Status == "unsat" {
			return
		}
	}
	s.pc = append(s.pc, c)
}

func siteOf(s *State) string {
	if len(s.frames) == 0 {
		return "?"
	}
	// the harness-level call site: innermost frame that is in an overlay (zz_verif) file
	for i := len(s.frames) - 1; i >= 0; i-- {
		f := s.frames[i]
		if f.pc < len(f.block.Instrs) {
			pos := f.fn.Prog.Fset.Position(f.block.Instrs[f.pc].Pos())
			if strings.Contains(pos.Filename, "zz_verif") {
				return fmt.Sprintf("%s:%d", shortFile(pos.Filename), pos.Line)
			}
		}
	}
	return where(s)
}

func shortFile(f string) string {
	return strings.TrimPrefix(f, repoDir+"/")
}
