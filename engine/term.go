package main

// Term layer: hash-consed SMT terms with constant folding.

import (
	"fmt"
	"math"
	"math/big"
	"strconv"
	"strings"
	"sync"
)

type Kind int

const (
	KBool Kind = iota
	KBV
	KFP
)

type Sort struct {
	K Kind
	W int
}

func (s Sort) String() string {
	switch s.K {
	case KBool:
		return "Bool"
	case KFP:
		if s.W == 32 {
			return "(_ FloatingPoint 8 24)"
		}
		return "(_ FloatingPoint 11 53)"
	}
	return fmt.Sprintf("(_ BitVec %d)", s.W)
}

var BoolSort = Sort{KBool, 0}
var F64 = Sort{KFP, 64}
var F32 = Sort{KFP, 32}

func BV(w int) Sort { return Sort{KBV, w} }

type Term struct {
	Op   string
	Args []*Term
	S    Sort
	C    *big.Int // constant (BV unsigned normalized; Bool 0/1; FP: IEEE bits)
	Name string
	P    [2]int // params for extract / extend
	id   int
	sym  bool // contains a variable or UF
}

var (
	termMu      sync.Mutex
	termCounter int
	internTab   = map[string]*Term{}
)

func intern(key string, build func() *Term) *Term {
	termMu.Lock()
	if t, ok := internTab[key]; ok {
		termMu.Unlock()
		return t
	}
	t := build()
	termCounter++
	t.id = termCounter
	internTab[key] = t
	termMu.Unlock()
	return t
}

func mk(op string, s Sort, args ...*Term) *Term {
	var sb strings.Builder
	sb.WriteString(op)
	sb.WriteByte('/')
	sb.WriteString(strconv.Itoa(int(s.K)*1000 + s.W))
	for _, a := range args {
		sb.WriteByte(',')
		sb.WriteString(strconv.Itoa(a.id))
	}
	return intern(sb.String(), func() *Term {
		return &Term{Op: op, Args: args, S: s, sym: true}
	})
}

func mkP(op string, s Sort, p0, p1 int, a *Term) *Term {
	k := op + "/" + strconv.Itoa(s.W) + ":" + strconv.Itoa(p0) + ":" + strconv.Itoa(p1) + "," + strconv.Itoa(a.id)
	return intern(k, func() *Term {
		return &Term{Op: op, Args: []*Term{a}, S: s, P: [2]int{p0, p1}, sym: true}
	})
}

func (t *Term) IsConst() bool { return t.Op == "const" }

func mask(w int) *big.Int {
	m := new(big.Int).Lsh(big.NewInt(1), uint(w))
	return m.Sub(m, big.NewInt(1))
}

func ConstBV(v *big.Int, w int) *Term {
	var x *big.Int
	if v.Sign() < 0 {
		x = new(big.Int).Mod(v, new(big.Int).Lsh(big.NewInt(1), uint(w)))
	} else {
		x = new(big.Int).And(v, mask(w))
	}
	k := "c" + strconv.Itoa(w) + ":" + x.String()
	return intern(k, func() *Term { return &Term{Op: "const", S: BV(w), C: x} })
}
func ConstU(v uint64, w int) *Term { return ConstBV(new(big.Int).SetUint64(v), w) }
func ConstI(v int64, w int) *Term  { return ConstBV(big.NewInt(v), w) }

var TrueT = intern("true", func() *Term { return &Term{Op: "const", S: BoolSort, C: big.NewInt(1)} })
var FalseT = intern("false", func() *Term { return &Term{Op: "const", S: BoolSort, C: big.NewInt(0)} })

func ConstBool(b bool) *Term {
	if b {
		return TrueT
	}
	return FalseT
}

func ConstF(f float64) *Term {
	bits := math.Float64bits(f)
	k := "f64:" + strconv.FormatUint(bits, 16)
	return intern(k, func() *Term { return &Term{Op: "const", S: F64, C: new(big.Int).SetUint64(bits)} })
}
func ConstF32(f float32) *Term {
	bits := math.Float32bits(f)
	k := "f32:" + strconv.FormatUint(uint64(bits), 16)
	return intern(k, func() *Term { return &Term{Op: "const", S: F32, C: new(big.Int).SetUint64(uint64(bits))} })
}

func (t *Term) F64() (float64, bool) {
	if t.IsConst() && t.S.K == KFP {
		if t.S.W == 32 {
			return float64(math.Float32frombits(uint32(t.C.Uint64()))), true
		}
		return math.Float64frombits(t.C.Uint64()), true
	}
	return 0, false
}

func constFP(f float64, s Sort) *Term {
	if s.W == 32 {
		return ConstF32(float32(f))
	}
	return ConstF(f)
}

func (t *Term) BoolVal() (bool, bool) {
	if t.IsConst() && t.S.K == KBool {
		return t.C.Sign() != 0, true
	}
	return false, false
}

func UF(name string, s Sort, args ...*Term) *Term { return mk("uf:"+name, s, args...) }

func Var(name string, s Sort) *Term {
	k := "v:" + name + "/" + strconv.Itoa(int(s.K)*1000+s.W)
	return intern(k, func() *Term { return &Term{Op: "var", S: s, Name: name, sym: true} })
}

func signed(c *big.Int, w int) *big.Int {
	if c.Bit(w-1) == 1 {
		return new(big.Int).Sub(c, new(big.Int).Lsh(big.NewInt(1), uint(w)))
	}
	return new(big.Int).Set(c)
}

func FpBin(op string, a, b *Term) *Term {
	x, ok1 := a.F64()
	y, ok2 := b.F64()
	if ok1 && ok2 {
		if a.S.W == 32 {
			x32, y32 := float32(x), float32(y)
			switch op {
			case "fp.add":
				return ConstF32(x32 + y32)
			case "fp.sub":
				return ConstF32(x32 - y32)
			case "fp.mul":
				return ConstF32(x32 * y32)
			case "fp.div":
				return ConstF32(x32 / y32)
			}
		}
		switch op {
		case "fp.add":
			return ConstF(x + y)
		case "fp.sub":
			return ConstF(x - y)
		case "fp.mul":
			return ConstF(x * y)
		case "fp.div":
			return ConstF(x / y)
		}
	}
	return mk(op, a.S, a, b)
}

func FpCmp(op string, a, b *Term) *Term {
	x, ok1 := a.F64()
	y, ok2 := b.F64()
	if ok1 && ok2 {
		switch op {
		case "fp.lt":
			return ConstBool(x < y)
		case "fp.leq":
			return ConstBool(x <= y)
		case "fp.gt":
			return ConstBool(x > y)
		case "fp.geq":
			return ConstBool(x >= y)
		case "fp.eq":
			return ConstBool(x == y)
		}
	}
	return mk(op, BoolSort, a, b)
}

func FpNeg(a *Term) *Term {
	if x, ok := a.F64(); ok {
		return constFP(-x, a.S)
	}
	return mk("fp.neg", a.S, a)
}

func FpIsNaN(a *Term) *Term {
	if x, ok := a.F64(); ok {
		return ConstBool(math.IsNaN(x))
	}
	return mk("fp.isNaN", BoolSort, a)
}

// BvBin builds a binary bitvector op with constant folding.
func BvBin(op string, a, b *Term) *Term {
	w := a.S.W
	if a.S != b.S {
		panic(fmt.Sprintf("sort mismatch %s: %v %v", op, a.S, b.S))
	}
	if a.IsConst() && b.IsConst() {
		x, y := a.C, b.C
		r := new(big.Int)
		switch op {
		case "bvadd":
			r.Add(x, y)
		case "bvsub":
			r.Sub(x, y)
		case "bvmul":
			r.Mul(x, y)
		case "bvand":
			r.And(x, y)
		case "bvor":
			r.Or(x, y)
		case "bvxor":
			r.Xor(x, y)
		case "bvudiv":
			if y.Sign() == 0 {
				r = mask(w)
			} else {
				r.Quo(x, y)
			}
		case "bvurem":
			if y.Sign() == 0 {
				r.Set(x)
			} else {
				r.Rem(x, y)
			}
		case "bvsdiv":
			if y.Sign() == 0 {
				goto nofold
			}
			r.Quo(signed(x, w), signed(y, w))
		case "bvsrem":
			if y.Sign() == 0 {
				goto nofold
			}
			r.Rem(signed(x, w), signed(y, w))
		case "bvshl":
			if y.Cmp(big.NewInt(int64(w))) >= 0 {
				r.SetInt64(0)
			} else {
				r.Lsh(x, uint(y.Int64()))
			}
		case "bvlshr":
			if y.Cmp(big.NewInt(int64(w))) >= 0 {
				r.SetInt64(0)
			} else {
				r.Rsh(x, uint(y.Int64()))
			}
		case "bvashr":
			sx := signed(x, w)
			if y.Cmp(big.NewInt(int64(w))) >= 0 {
				if sx.Sign() < 0 {
					r.SetInt64(-1)
				} else {
					r.SetInt64(0)
				}
			} else {
				r.Rsh(sx, uint(y.Int64()))
			}
		default:
			goto nofold
		}
		return ConstBV(r, w)
	}
nofold:
	// light identities
	switch op {
	case "bvadd", "bvor", "bvxor":
		if a.IsConst() && a.C.Sign() == 0 {
			return b
		}
		if b.IsConst() && b.C.Sign() == 0 {
			return a
		}
	case "bvsub":
		if b.IsConst() && b.C.Sign() == 0 {
			return a
		}
		if a == b {
			return ConstU(0, w)
		}
	case "bvand":
		if a.IsConst() && a.C.Sign() == 0 {
			return a
		}
		if b.IsConst() && b.C.Sign() == 0 {
			return b
		}
		if a.IsConst() && a.C.Cmp(mask(w)) == 0 {
			return b
		}
		if b.IsConst() && b.C.Cmp(mask(w)) == 0 {
			return a
		}
	case "bvmul":
		if a.IsConst() && a.C.Cmp(big.NewInt(1)) == 0 {
			return b
		}
		if b.IsConst() && b.C.Cmp(big.NewInt(1)) == 0 {
			return a
		}
		if (a.IsConst() && a.C.Sign() == 0) || (b.IsConst() && b.C.Sign() == 0) {
			return ConstU(0, w)
		}
	case "bvshl", "bvlshr", "bvashr":
		if b.IsConst() && b.C.Sign() == 0 {
			return a
		}
	case "bvudiv", "bvsdiv":
		if b.IsConst() && b.C.Cmp(big.NewInt(1)) == 0 {
			return a
		}
	}
	if op == "bvor" {
		if r := simplifyOr(a, b); r != nil {
			return r
		}
	}
	// canonical order for commutative ops so x*y and y*x intern equal
	switch op {
	case "bvadd", "bvmul", "bvand", "bvor", "bvxor":
		if a.id > b.id {
			a, b = b, a
		}
	}
	return mk(op, a.S, a, b)
}

func BvCmp(op string, a, b *Term) *Term {
	if a.S != b.S {
		panic(fmt.Sprintf("sort mismatch %s: %v %v", op, a.S, b.S))
	}
	if a.IsConst() && b.IsConst() {
		w := a.S.W
		var c int
		switch op {
		case "bvult", "bvule", "bvugt", "bvuge":
			c = a.C.Cmp(b.C)
		default:
			c = signed(a.C, w).Cmp(signed(b.C, w))
		}
		switch op {
		case "bvult", "bvslt":
			return ConstBool(c < 0)
		case "bvule", "bvsle":
			return ConstBool(c <= 0)
		case "bvugt", "bvsgt":
			return ConstBool(c > 0)
		case "bvuge", "bvsge":
			return ConstBool(c >= 0)
		}
	}
	if a == b {
		switch op {
		case "bvule", "bvsle", "bvuge", "bvsge":
			return TrueT
		default:
			return FalseT
		}
	}
	return mk(op, BoolSort, a, b)
}

func Eq(a, b *Term) *Term {
	if a.S != b.S {
		panic(fmt.Sprintf("sort mismatch =: %v %v", a.S, b.S))
	}
	if a == b {
		return TrueT
	}
	if a.IsConst() && b.IsConst() {
		return ConstBool(a.C.Cmp(b.C) == 0)
	}
	if a.S.K == KBool {
		if v, ok := a.BoolVal(); ok {
			if v {
				return b
			}
			return Not(b)
		}
		if v, ok := b.BoolVal(); ok {
			if v {
				return a
			}
			return Not(a)
		}
	}
	// ite(c, k1, k2) == k  folds when k1,k2,k constants
	if a.Op == "ite" && b.IsConst() && a.Args[1].IsConst() && a.Args[2].IsConst() {
		e1 := a.Args[1].C.Cmp(b.C) == 0
		e2 := a.Args[2].C.Cmp(b.C) == 0
		switch {
		case e1 && e2:
			return TrueT
		case e1:
			return a.Args[0]
		case e2:
			return Not(a.Args[0])
		default:
			return FalseT
		}
	}
	if a.id > b.id {
		a, b = b, a
	}
	return mk("=", BoolSort, a, b)
}

// FpEqBits is Go's == on floats (IEEE equality: NaN != NaN, -0 == +0).
func FpEq(a, b *Term) *Term { return FpCmp("fp.eq", a, b) }

func Not(a *Term) *Term {
	if v, ok := a.BoolVal(); ok {
		return ConstBool(!v)
	}
	if a.Op == "not" {
		return a.Args[0]
	}
	return mk("not", BoolSort, a)
}
func And(a, b *Term) *Term {
	if v, ok := a.BoolVal(); ok {
		if v {
			return b
		}
		return FalseT
	}
	if v, ok := b.BoolVal(); ok {
		if v {
			return a
		}
		return FalseT
	}
	if a == b {
		return a
	}
	return mk("and", BoolSort, a, b)
}
func Or(a, b *Term) *Term {
	if v, ok := a.BoolVal(); ok {
		if v {
			return TrueT
		}
		return b
	}
	if v, ok := b.BoolVal(); ok {
		if v {
			return TrueT
		}
		return a
	}
	if a == b {
		return a
	}
	return mk("or", BoolSort, a, b)
}
func Ite(c, a, b *Term) *Term {
	if v, ok := c.BoolVal(); ok {
		if v {
			return a
		}
		return b
	}
	if a == b {
		return a
	}
	if a.S.K == KBool {
		if v, ok := a.BoolVal(); ok {
			if v {
				return Or(c, b)
			}
			return And(Not(c), b)
		}
		if v, ok := b.BoolVal(); ok {
			if v {
				return Or(Not(c), a)
			}
			return And(c, a)
		}
	}
	return mk("ite", a.S, c, a, b)
}
func BvNot(a *Term) *Term {
	if a.IsConst() {
		return ConstBV(new(big.Int).Xor(a.C, mask(a.S.W)), a.S.W)
	}
	return mk("bvnot", a.S, a)
}
func BvNeg(a *Term) *Term {
	if a.IsConst() {
		return ConstBV(new(big.Int).Neg(a.C), a.S.W)
	}
	return mk("bvneg", a.S, a)
}

// Resize converts a to width w, sign- or zero-extending.
func Resize(a *Term, w int, srcSigned bool) *Term {
	sw := a.S.W
	if sw == w {
		return a
	}
	if a.IsConst() {
		if w < sw {
			return ConstBV(a.C, w)
		}
		if srcSigned {
			return ConstBV(signed(a.C, sw), w)
		}
		return ConstBV(a.C, w)
	}
	if w < sw {
		// extract of an extension of something no wider than w collapses
		if (a.Op == "zero_extend" || a.Op == "sign_extend") && a.Args[0].S.W == w {
			return a.Args[0]
		}
		return Extract(a, w-1, 0)
	}
	op := "zero_extend"
	if srcSigned {
		op = "sign_extend"
	}
	return mkP(op, BV(w), w-sw, 0, a)
}

func Extract(a *Term, hi, lo int) *Term {
	if a.IsConst() {
		return ConstBV(new(big.Int).Rsh(a.C, uint(lo)), hi-lo+1)
	}
	if lo == 0 && hi == a.S.W-1 {
		return a
	}
	if a.Op == "extract" {
		return Extract(a.Args[0], a.P[1]+hi, a.P[1]+lo)
	}
	if r := simplifyExtract(a, hi, lo); r != nil {
		return r
	}
	return mkP("extract", BV(hi-lo+1), hi, lo, a)
}

func Concat(a, b *Term) *Term {
	if a.IsConst() && b.IsConst() {
		r := new(big.Int).Lsh(a.C, uint(b.S.W))
		r.Or(r, b.C)
		return ConstBV(r, a.S.W+b.S.W)
	}
	return mk("concat", BV(a.S.W+b.S.W), a, b)
}

// SMT emission ----------------------------------------------------------

type emitter struct {
	sb    strings.Builder
	done  map[*Term]string
	decls map[string]Sort
	vars  []*Term
}

func newEmitter() *emitter {
	return &emitter{done: map[*Term]string{}, decls: map[string]Sort{}}
}

func bvLit(c *big.Int, w int) string {
	return fmt.Sprintf("(_ bv%s %d)", c.String(), w)
}

func smtName(n string) string {
	// |...| quoting; the quoted symbol may not contain | or \
	n = strings.ReplaceAll(n, "|", "!")
	n = strings.ReplaceAll(n, "\\", "!")
	return "|v_" + n + "|"
}

func (e *emitter) ref(t *Term) string {
	if s, ok := e.done[t]; ok {
		return s
	}
	var s string
	switch t.Op {
	case "const":
		switch t.S.K {
		case KBool:
			if t.C.Sign() != 0 {
				s = "true"
			} else {
				s = "false"
			}
		case KFP:
			b := t.C.Uint64()
			if t.S.W == 32 {
				s = fmt.Sprintf("(fp #b%01b #b%08b #b%023b)", (b>>31)&1, (b>>23)&0xff, b&((1<<23)-1))
			} else {
				s = fmt.Sprintf("(fp #b%01b #b%011b #b%052b)", b>>63, (b>>52)&0x7ff, b&((1<<52)-1))
			}
		default:
			s = bvLit(t.C, t.S.W)
		}
	case "var":
		nm := smtName(t.Name)
		if _, ok := e.decls[nm]; !ok {
			e.decls[nm] = t.S
			e.vars = append(e.vars, t)
			fmt.Fprintf(&e.sb, "(declare-const %s %s)\n", nm, t.S)
		}
		s = nm
	default:
		args := make([]string, len(t.Args))
		for i, a := range t.Args {
			args[i] = e.ref(a)
		}
		var expr string
		eb, sb := 11, 53
		if t.S.K == KFP && t.S.W == 32 {
			eb, sb = 8, 24
		}
		if strings.HasPrefix(t.Op, "uf:") {
			fn := "|uf_" + t.Op[3:] + "|"
			if _, ok := e.decls[fn]; !ok {
				e.decls[fn] = t.S
				var as []string
				for _, a := range t.Args {
					as = append(as, a.S.String())
				}
				fmt.Fprintf(&e.sb, "(declare-fun %s (%s) %s)\n", fn, strings.Join(as, " "), t.S)
			}
			if len(args) == 0 {
				expr = fn
			} else {
				expr = "(" + fn + " " + strings.Join(args, " ") + ")"
			}
		} else {
			switch t.Op {
			case "extract":
				expr = fmt.Sprintf("((_ extract %d %d) %s)", t.P[0], t.P[1], args[0])
			case "zero_extend", "sign_extend":
				expr = fmt.Sprintf("((_ %s %d) %s)", t.Op, t.P[0], args[0])
			case "fp.add", "fp.sub", "fp.mul", "fp.div":
				expr = "(" + t.Op + " RNE " + strings.Join(args, " ") + ")"
			case "fp.sqrt":
				expr = "(fp.sqrt RNE " + args[0] + ")"
			case "fp.rtz":
				expr = "(fp.roundToIntegral RTZ " + args[0] + ")"
			case "fp.rtn":
				expr = "(fp.roundToIntegral RTN " + args[0] + ")"
			case "fp.rtp":
				expr = "(fp.roundToIntegral RTP " + args[0] + ")"
			case "to_fp_s":
				expr = fmt.Sprintf("((_ to_fp %d %d) RNE %s)", eb, sb, args[0])
			case "to_fp_u":
				expr = fmt.Sprintf("((_ to_fp_unsigned %d %d) RNE %s)", eb, sb, args[0])
			case "to_fp_f": // float -> float of other precision
				expr = fmt.Sprintf("((_ to_fp %d %d) RNE %s)", eb, sb, args[0])
			case "to_fp_bits": // reinterpret bits
				expr = fmt.Sprintf("((_ to_fp %d %d) %s)", eb, sb, args[0])
			case "fp.to_sbv":
				expr = fmt.Sprintf("((_ fp.to_sbv %d) RTZ %s)", t.S.W, args[0])
			case "fp.to_ubv":
				expr = fmt.Sprintf("((_ fp.to_ubv %d) RTZ %s)", t.S.W, args[0])
			default:
				expr = "(" + t.Op + " " + strings.Join(args, " ") + ")"
			}
		}
		name := "|t!" + strconv.Itoa(t.id) + "|"
		fmt.Fprintf(&e.sb, "(define-fun %s () %s %s)\n", name, t.S, expr)
		s = name
	}
	e.done[t] = s
	return s
}

// freeVars collects the variables (by name) occurring in t.
func freeVars(t *Term, seen map[*Term]bool, out map[string]*Term) {
	if seen[t] || !t.sym {
		return
	}
	seen[t] = true
	if t.Op == "var" {
		out[t.Name] = t
		return
	}
	for _, a := range t.Args {
		freeVars(a, seen, out)
	}
}

// evalTerm evaluates t under a model (vars by name); used for validation.
// Returns nil when it cannot (UF/FP ops that were not folded).
func evalTerm(t *Term, m map[string]*big.Int, memo map[*Term]*Term) *Term {
	if !t.sym {
		return t
	}
	if r, ok := memo[t]; ok {
		return r
	}
	var r *Term
	switch {
	case t.Op == "var":
		v, ok := m[t.Name]
		if !ok {
			v = big.NewInt(0)
		}
		switch t.S.K {
		case KBool:
			r = ConstBool(v.Sign() != 0)
		case KBV:
			r = ConstBV(v, t.S.W)
		case KFP:
			if t.S.W == 32 {
				r = ConstF32(math.Float32frombits(uint32(v.Uint64())))
			} else {
				r = ConstF(math.Float64frombits(v.Uint64()))
			}
		}
	case strings.HasPrefix(t.Op, "uf:"):
		r = nil
	default:
		args := make([]*Term, len(t.Args))
		ok := true
		for i, a := range t.Args {
			args[i] = evalTerm(a, m, memo)
			if args[i] == nil {
				ok = false
			}
		}
		if ok {
			r = rebuild(t, args)
			if r != nil && !r.IsConst() {
				r = nil
			}
		}
	}
	memo[t] = r
	return r
}

func rebuild(t *Term, a []*Term) *Term {
	switch t.Op {
	case "bvadd", "bvsub", "bvmul", "bvand", "bvor", "bvxor", "bvudiv", "bvurem", "bvsdiv", "bvsrem", "bvshl", "bvlshr", "bvashr":
		return BvBin(t.Op, a[0], a[1])
	case "bvult", "bvule", "bvugt", "bvuge", "bvslt", "bvsle", "bvsgt", "bvsge":
		return BvCmp(t.Op, a[0], a[1])
	case "=":
		return Eq(a[0], a[1])
	case "not":
		return Not(a[0])
	case "and":
		return And(a[0], a[1])
	case "or":
		return Or(a[0], a[1])
	case "ite":
		return Ite(a[0], a[1], a[2])
	case "bvnot":
		return BvNot(a[0])
	case "bvneg":
		return BvNeg(a[0])
	case "extract":
		return Extract(a[0], t.P[0], t.P[1])
	case "zero_extend":
		return Resize(a[0], t.S.W, false)
	case "sign_extend":
		return Resize(a[0], t.S.W, true)
	case "concat":
		return Concat(a[0], a[1])
	case "fp.add", "fp.sub", "fp.mul", "fp.div":
		return FpBin(t.Op, a[0], a[1])
	case "fp.lt", "fp.leq", "fp.gt", "fp.geq", "fp.eq":
		return FpCmp(t.Op, a[0], a[1])
	}
	return nil
}
