package main

import (
	"fmt"
	"go/token"
	"go/types"
	"sync/atomic"

	"golang.org/x/tools/go/ssa"
)

const maxCallDepth = 400

func (w *W) pushCall(s *State, fn *ssa.Function, args []Value, free []Value, resultTo ssa.Value, isDefer bool) {
	if fn.Blocks == nil {
		panic(execErr{"call to function without body: " + fn.String()})
	}
	if len(s.frames) > maxCallDepth {
		panic(execErr{"call depth exceeded"})
	}
	name := fn.String()
	if !s.covered[name] {
		s.covered[name] = true
	}
	f := &Frame{fn: fn, block: fn.Blocks[0], locals: make(map[ssa.Value]Value, 16), resultTo: resultTo, isDefer: isDefer}
	if len(args) != len(fn.Params) {
		panic(execErr{fmt.Sprintf("arg count mismatch calling %s: %d vs %d", fn, len(args), len(fn.Params))})
	}
	for i, p := range fn.Params {
		f.locals[p] = args[i]
	}
	if len(free) != len(fn.FreeVars) {
		panic(execErr{fmt.Sprintf("free var count mismatch calling %s", fn)})
	}
	for i, fv := range fn.FreeVars {
		f.locals[fv] = free[i]
	}
	s.frames = append(s.frames, f)
}

// doReturn pops the top frame and delivers results.
func (w *W) doReturn(s *State, results []Value) {
	f := s.top()
	s.frames = s.frames[:len(s.frames)-1]
	if len(s.frames) == 0 {
		if s.cur == 0 || len(s.gs) == 0 {
			panic(pathEnd{"done"})
		}
		s.gs[s.cur].done = true
		s.progress++
		panic(blockReq{"goroutine finished"})
	}
	caller := s.top()
	if f.isDefer || f.isInit {
		if f.isInit {
			caller.pc++
		}
		return // caller re-executes RunDefers
	}
	if f.resultTo != nil {
		var rv Value
		switch len(results) {
		case 0:
			rv = TupleV{}
		case 1:
			rv = results[0]
		default:
			rv = TupleV{results}
		}
		caller.locals[f.resultTo] = rv
	}
	caller.pc++
}

func setResult(s *State, resultTo ssa.Value, v Value) {
	if resultTo != nil {
		s.top().locals[resultTo] = v
	}
}

func zeroResults(sig *types.Signature) Value {
	res := sig.Results()
	switch res.Len() {
	case 0:
		return TupleV{}
	case 1:
		return zeroValue(res.At(0).Type())
	}
	return zeroValue(res)
}

// callValue returns true if the call completed synchronously (caller advances pc).
func (w *W) callValue(s *State, fv Value, args []Value, resultTo ssa.Value, isDefer bool) bool {
	f, ok := fv.(FuncV)
	if !ok || f.Nil {
		panic(pathEnd{"panic: call of nil func"})
	}
	if f.Builtin != nil {
		r := w.builtin(s, f.Builtin, args)
		setResult(s, resultTo, r)
		return true
	}
	name := f.Fn.String()
	if f.Fn.Origin() != nil {
		// generic instance: models/intrinsics are keyed by the origin's name too
		if _, ok := intrinsics[name]; !ok {
			if _, ok2 := w.e.models[name]; !ok2 {
				on := f.Fn.Origin().String()
				if _, ok3 := intrinsics[on]; ok3 {
					name = on
				}
			}
		}
	}
	switch name {
	case "(*sync.Once).Do":
		p := args[0].(PtrV)
		key := fmt.Sprintf("%d%v", p.Obj, p.Path)
		if s.onceRan[key] {
			setResult(s, resultTo, TupleV{})
			return true
		}
		s.onceRan[key] = true
		return w.callValue(s, args[1], nil, resultTo, isDefer)
	case "(*sync.Pool).Get":
		pp := args[0].(PtrV)
		if s.poolReuse {
			key := fmt.Sprintf("%d%v", pp.Obj, pp.Path)
			if l := s.pools[key]; len(l) > 0 {
				v := l[len(l)-1]
				s.pools[key] = l[:len(l)-1]
				setResult(s, resultTo, v)
				return true
			}
		}
		pool := w.load(s, pp).(StructV)
		newFn := pool.F[len(pool.F)-1]
		if nf, ok := newFn.(FuncV); ok && !nf.Nil {
			return w.callValue(s, nf, nil, resultTo, isDefer)
		}
		setResult(s, resultTo, IfaceV{})
		return true
	case "(*sync.Pool).Put":
		if s.poolReuse {
			pp := args[0].(PtrV)
			key := fmt.Sprintf("%d%v", pp.Obj, pp.Path)
			if s.pools == nil {
				s.pools = map[string][]Value{}
			}
			s.pools[key] = append(append([]Value(nil), s.pools[key]...), args[1])
		}
		setResult(s, resultTo, TupleV{})
		return true
	}
	if m, ok := w.e.models[name]; ok {
		w.e.noteModel("model:" + name)
		w.pushCall(s, m, args, nil, resultTo, isDefer)
		return false
	}
	if f.Fn.Pkg != nil && skipPkgs[f.Fn.Pkg.Pkg.Path()] {
		w.e.noteModel("skip-pkg:" + f.Fn.Pkg.Pkg.Path())
		setResult(s, resultTo, zeroResults(f.Fn.Signature))
		return true
	}
	if h, ok := intrinsics[name]; ok {
		r := h(w, s, args)
		if r != nil { // nil = "not applicable to these arguments": run the real body
			w.e.noteModel("intrinsic:" + name)
			setResult(s, resultTo, r)
			return true
		}
	}
	if f.Fn.Blocks == nil {
		panic(execErr{"no body / no intrinsic: " + f.Fn.String()})
	}
	w.pushCall(s, f.Fn, args, f.Free, resultTo, isDefer)
	return false
}

func (e *Engine) noteModel(name string) {
	e.mu.Lock()
	e.usedModel[name]++
	e.mu.Unlock()
}

// resolve call target and args
func (w *W) resolveCall(s *State, fr *Frame, c *ssa.CallCommon) (Value, []Value) {
	var args []Value
	var fv Value
	if c.IsInvoke() {
		recv := w.get(s, fr, c.Value)
		iv, ok := recv.(IfaceV)
		if !ok || iv.T == nil {
			panic(pathEnd{"panic: invoke on nil interface " + c.Method.Name()})
		}
		fn := w.e.lookupMethod(iv.T, c.Method)
		fv = FuncV{Fn: fn}
		args = append(args, iv.V)
	} else {
		fv = w.get(s, fr, c.Value)
	}
	for _, a := range c.Args {
		args = append(args, w.get(s, fr, a))
	}
	return fv, args
}

func (w *W) jump(s *State, fr *Frame, to *ssa.BasicBlock) {
	if to.Index <= fr.block.Index && to.Dominates(fr.block) {
		// back edge: unwinding check
		if fr.loops == nil {
			fr.loops = map[*ssa.BasicBlock]int{}
		}
		fr.loops[to]++
		for k := range fr.loops {
			if k != to && to.Dominates(k) {
				delete(fr.loops, k)
			}
		}
		atomic.AddInt64(&w.e.unwindChecked, 1)
		lim := s.unwind
		if lim == 0 {
			lim = defaultUnwind
		}
		if fr.loops[to] > lim {
			panic(pathEnd{fmt.Sprintf("unwind: loop in %s exceeded %d iterations", fr.fn, lim)})
		}
	}
	fr.prev, fr.block, fr.pc = fr.block, to, 0
}

var defaultUnwind = 2000

// step executes one instruction of the top frame. It may panic with forkReq,
// pathEnd, blockReq or execErr.
func (w *W) step(s *State) {
	fr := s.top()
	if fr.pc >= len(fr.block.Instrs) {
		panic(execErr{"fell off block"})
	}
	in := fr.block.Instrs[fr.pc]
	s.steps++
	set := func(v Value) {
		fr.locals[in.(ssa.Value)] = v
		fr.pc++
	}
	switch x := in.(type) {
	case *ssa.Alloc:
		id := w.e.alloc(s, zeroValue(x.Type().(*types.Pointer).Elem()))
		set(PtrV{Obj: id})
	case *ssa.BinOp:
		set(w.binop(s, x.Op, w.get(s, fr, x.X), w.get(s, fr, x.Y), x.X.Type(), x.Y.Type()))
	case *ssa.UnOp:
		v := w.get(s, fr, x.X)
		switch x.Op {
		case token.MUL:
			set(w.load(s, v.(PtrV)))
		case token.NOT:
			set(Not(term(v)))
		case token.SUB:
			t := term(v)
			if t.S.K == KFP {
				set(FpNeg(t))
			} else {
				set(BvNeg(t))
			}
		case token.XOR:
			set(BvNot(term(v)))
		case token.ARROW:
			ch := v.(ChanV)
			if ch.Nil {
				panic(blockReq{"recv on nil chan"})
			}
			cd := s.heap[ch.Obj].(*ChanData)
			var val Value
			ok := true
			if len(cd.Buf) > 0 {
				val = cd.Buf[0]
				s.heap[ch.Obj] = &ChanData{Buf: append([]Value(nil), cd.Buf[1:]...), Closed: cd.Closed, Cap: cd.Cap}
				s.progress++
			} else if cd.Closed {
				val = zeroValue(x.X.Type().Underlying().(*types.Chan).Elem())
				ok = false
			} else {
				panic(blockReq{"recv on empty chan"})
			}
			if x.CommaOk {
				set(TupleV{[]Value{val, ConstBool(ok)}})
			} else {
				set(val)
			}
		default:
			panic(execErr{"unop " + x.Op.String()})
		}
	case *ssa.Store:
		w.store(s, w.get(s, fr, x.Addr).(PtrV), w.get(s, fr, x.Val))
		fr.pc++
	case *ssa.FieldAddr:
		p := w.get(s, fr, x.X).(PtrV)
		if p.Nil {
			panic(pathEnd{"panic: nil pointer dereference (field addr)"})
		}
		np := p
		np.Path = append(append([]int(nil), p.Path...), x.Field)
		set(np)
	case *ssa.Field:
		set(w.get(s, fr, x.X).(StructV).F[x.Field])
	case *ssa.IndexAddr:
		base := w.get(s, fr, x.X)
		idxV := unsignedFix(w.get(s, fr, x.Index), x.Index.Type())
		var n int
		var mkPtr func(i int) PtrV
		switch b := base.(type) {
		case SliceV:
			n = b.Len
			mkPtr = func(i int) PtrV { return PtrV{Obj: b.Obj, Path: []int{b.Off + i}} }
			if b.Nil {
				n = 0
			}
		case PtrV: // pointer to array
			if b.Nil {
				panic(pathEnd{"panic: nil pointer dereference (index addr)"})
			}
			arr, ok := w.load(s, b).(ArrayV)
			if !ok {
				panic(execErr{"IndexAddr through pointer to non-array"})
			}
			n = len(arr.E)
			mkPtr = func(i int) PtrV {
				np := b
				np.Path = append(append([]int(nil), b.Path...), i)
				return np
			}
		default:
			panic(execErr{fmt.Sprintf("IndexAddr on %T", base)})
		}
		if idx, ok := concInt(idxV); ok {
			if idx < 0 || idx >= n {
				panic(pathEnd{fmt.Sprintf("panic: index out of range [%d] with length %d", idx, n)})
			}
			set(mkPtr(idx))
			return
		}
		it := term(idxV)
		inRange := And(BvCmp("bvsge", it, ConstI(0, it.S.W)), BvCmp("bvslt", it, ConstI(int64(n), it.S.W)))
		if !w.decide(s, inRange) {
			panic(pathEnd{fmt.Sprintf("panic: index out of range [symbolic] with length %d", n)})
		}
		if n == 1 {
			set(mkPtr(0))
			return
		}
		p0 := mkPtr(0)
		if p0.SymIdx != nil {
			// nested symbolic index: concretize this level
			set(mkPtr(w.concretize(s, it, n)))
			return
		}
		p0.SymIdx, p0.SymAt, p0.SymLen = it, len(p0.Path)-1, n
		if sl, ok := base.(SliceV); ok && sl.Off != 0 {
			// path element = Off + idx; keep symbolic index relative by shifting
			p0.SymIdx = BvBin("bvadd", it, ConstI(int64(sl.Off), it.S.W))
			p0.SymLen = sl.Off + n
		}
		set(p0)
	case *ssa.Index:
		base := w.get(s, fr, x.X)
		idxV := unsignedFix(w.get(s, fr, x.Index), x.Index.Type())
		switch b := base.(type) {
		case ArrayV:
			if idx, ok := concInt(idxV); ok {
				if idx < 0 || idx >= len(b.E) {
					panic(pathEnd{fmt.Sprintf("panic: index out of range [%d] with length %d", idx, len(b.E))})
				}
				set(b.E[idx])
				return
			}
			it := term(idxV)
			n := len(b.E)
			inRange := And(BvCmp("bvsge", it, ConstI(0, it.S.W)), BvCmp("bvslt", it, ConstI(int64(n), it.S.W)))
			if !w.decide(s, inRange) {
				panic(pathEnd{fmt.Sprintf("panic: index out of range [symbolic] with length %d", n)})
			}
			set(iteChain(it, b.E))
		case StrV:
			if idx, ok := concInt(idxV); ok {
				if idx < 0 || idx >= b.Len() {
					panic(pathEnd{fmt.Sprintf("panic: index out of range [%d] with length %d", idx, b.Len())})
				}
				set(b.Byte(idx))
				return
			}
			it := term(idxV)
			n := b.Len()
			inRange := And(BvCmp("bvsge", it, ConstI(0, it.S.W)), BvCmp("bvslt", it, ConstI(int64(n), it.S.W)))
			if !w.decide(s, inRange) {
				panic(pathEnd{fmt.Sprintf("panic: index out of range [symbolic] with length %d", n)})
			}
			el := make([]Value, n)
			for i := range el {
				el[i] = b.Byte(i)
			}
			set(iteChain(it, el))
		default:
			panic(execErr{fmt.Sprintf("Index on %T", base)})
		}
	case *ssa.Phi:
		if fr.mergeCond != nil {
			var a, b Value
			for i, p := range fr.block.Preds {
				if p == fr.mergeA {
					a = w.get(s, fr, x.Edges[i])
				}
				if p == fr.mergeB {
					b = w.get(s, fr, x.Edges[i])
				}
			}
			set(iteValue(fr.mergeCond, a, b))
			if fr.pc >= len(fr.block.Instrs) {
				return
			}
			if _, more := fr.block.Instrs[fr.pc].(*ssa.Phi); !more {
				fr.mergeCond = nil
			}
			return
		}
		for i, p := range fr.block.Preds {
			if p == fr.prev {
				set(w.get(s, fr, x.Edges[i]))
				return
			}
		}
		panic(execErr{"phi: no matching pred"})
	case *ssa.Jump:
		w.jump(s, fr, fr.block.Succs[0])
	case *ssa.If:
		ct := term(w.get(s, fr, x.Cond))
		if !ct.IsConst() && w.tryCondDAG(s, fr, ct) {
			return
		}
		if !ct.IsConst() && w.tryIfConvert(s, fr, ct) {
			return
		}
		c := w.decide(s, ct)
		if c {
			w.jump(s, fr, fr.block.Succs[0])
		} else {
			w.jump(s, fr, fr.block.Succs[1])
		}
	case *ssa.Return:
		var res []Value
		for _, r := range x.Results {
			res = append(res, w.get(s, fr, r))
		}
		w.doReturn(s, res)
	case *ssa.Call:
		fv, args := w.resolveCall(s, fr, &x.Call)
		if w.callValue(s, fv, args, x, false) {
			fr.pc++
		}
	case *ssa.Defer:
		fv, args := w.resolveCall(s, fr, &x.Call)
		fr.defers = append(fr.defers, deferred{fv, args})
		fr.pc++
	case *ssa.RunDefers:
		if len(fr.defers) == 0 {
			fr.pc++
			return
		}
		d := fr.defers[len(fr.defers)-1]
		fr.defers = fr.defers[:len(fr.defers)-1]
		w.callValue(s, d.fn, d.args, nil, true)
	case *ssa.MakeInterface:
		set(IfaceV{T: x.X.Type(), V: w.get(s, fr, x.X)})
	case *ssa.ChangeInterface:
		set(w.get(s, fr, x.X))
	case *ssa.ChangeType:
		set(w.get(s, fr, x.X))
	case *ssa.Convert:
		set(w.convert(s, w.get(s, fr, x.X), x.X.Type(), x.Type()))
	case *ssa.MultiConvert:
		set(w.convert(s, w.get(s, fr, x.X), x.X.Type(), x.Type()))
	case *ssa.SliceToArrayPointer:
		sl := w.get(s, fr, x.X).(SliceV)
		n := int(x.Type().(*types.Pointer).Elem().Underlying().(*types.Array).Len())
		if sl.Len < n {
			panic(pathEnd{"panic: slice to array pointer: length too short"})
		}
		if sl.Off != 0 {
			panic(execErr{"SliceToArrayPointer with offset"})
		}
		set(PtrV{Obj: sl.Obj})
	case *ssa.TypeAssert:
		ivv := w.get(s, fr, x.X)
		iv, isI := ivv.(IfaceV)
		if !isI {
			panic(execErr{fmt.Sprintf("TypeAssert on %T", ivv)})
		}
		var ok bool
		var res Value
		if it, isIface := x.AssertedType.Underlying().(*types.Interface); isIface {
			if iv.T != nil {
				ok = types.Implements(iv.T, it)
			}
			if ok {
				res = iv
			} else {
				res = IfaceV{}
			}
		} else {
			ok = iv.T != nil && types.Identical(iv.T, x.AssertedType)
			if ok {
				res = iv.V
			} else {
				res = zeroValue(x.AssertedType)
			}
		}
		if x.CommaOk {
			set(TupleV{[]Value{res, ConstBool(ok)}})
		} else {
			if !ok {
				panic(pathEnd{fmt.Sprintf("panic: interface conversion: %v is not %v", iv.T, x.AssertedType)})
			}
			set(res)
		}
	case *ssa.Extract:
		set(w.get(s, fr, x.Tuple).(TupleV).E[x.Index])
	case *ssa.MakeClosure:
		var free []Value
		for _, b := range x.Bindings {
			free = append(free, w.get(s, fr, b))
		}
		set(FuncV{Fn: x.Fn.(*ssa.Function), Free: free})
	case *ssa.MakeMap:
		id := w.e.alloc(s, &MapData{})
		set(MapV{Obj: id})
	case *ssa.MapUpdate:
		m := w.get(s, fr, x.Map).(MapV)
		if m.Nil {
			panic(pathEnd{"panic: assignment to entry in nil map"})
		}
		w.mapUpdate(s, m, w.get(s, fr, x.Key), w.get(s, fr, x.Value))
		fr.pc++
	case *ssa.Lookup:
		base := w.get(s, fr, x.X)
		if str, ok := base.(StrV); ok {
			idx := w.intOrFork(s, w.get(s, fr, x.Index), str.Len(), "string index")
			if idx < 0 || idx >= str.Len() {
				panic(pathEnd{"panic: string index out of range"})
			}
			set(str.Byte(idx))
			return
		}
		m := base.(MapV)
		v, ok := w.mapLookup(s, m, w.get(s, fr, x.Index), x.X.Type().Underlying().(*types.Map).Elem())
		if x.CommaOk {
			set(TupleV{[]Value{v, ok}})
		} else {
			set(v)
		}
	case *ssa.MakeSlice:
		if lv := w.get(s, fr, x.Len); lv != nil {
			if _, conc := concInt(lv); !conc {
				// a length computed from input: can it ask for more memory than any deployment has?
				// (an allocation the OS refuses is a fatal, unrecoverable runtime error)
				esz := amd64Sizes.Sizeof(x.Type().Underlying().(*types.Slice).Elem())
				if esz > 0 {
					lt := term(lv)
					k := ConstI((int64(1)<<36)/esz, lt.S.W)
					if w.decide(s, BvCmp("bvslt", k, lt)) {
						panic(pathEnd{fmt.Sprintf("panic: out of memory: makeslice of more than 64 GiB (symbolic length, %d-byte elements)", esz)})
					}
				}
			}
		}
		n := w.intOrFork(s, w.get(s, fr, x.Len), 64, "make len")
		c := w.intOrFork(s, w.get(s, fr, x.Cap), 64, "make cap")
		if n < 0 || c < n {
			panic(pathEnd{"panic: makeslice: len out of range"})
		}
		el := make([]Value, c)
		z := zeroValue(x.Type().Underlying().(*types.Slice).Elem())
		for i := range el {
			el[i] = z
		}
		id := w.e.alloc(s, ArrayV{el})
		set(SliceV{Obj: id, Len: n, Cap: c})
	case *ssa.Slice:
		set(w.sliceOp(s, fr, x))
	case *ssa.Range:
		set(w.makeRange(s, w.get(s, fr, x.X)))
	case *ssa.Next:
		set(w.next(s, w.get(s, fr, x.Iter).(IterV), x.IsString))
	case *ssa.Select:
		w.selectOp(s, fr, x, set)
	case *ssa.Go:
		fv, args := w.resolveCall(s, fr, &x.Call)
		f := fv.(FuncV)
		if f.Fn == nil || f.Fn.Blocks == nil {
			panic(execErr{"go on builtin/bodyless"})
		}
		saved := s.frames
		s.frames = nil
		w.pushCall(s, f.Fn, args, f.Free, nil, false)
		ng := &G{frames: s.frames, blockedAt: -1}
		s.frames = saved
		if len(s.gs) == 0 {
			s.gs = []*G{{frames: s.frames, blockedAt: -1}}
			s.cur = 0
		}
		s.gs = append(s.gs, ng)
		s.progress++
		atomic.AddInt64(&w.e.goSpawned, 1)
		fr.pc++
	case *ssa.MakeChan:
		c := w.intOrFork(s, w.get(s, fr, x.Size), 1024, "chan size")
		set(ChanV{Obj: w.e.alloc(s, &ChanData{Cap: c})})
	case *ssa.Send:
		ch := w.get(s, fr, x.Chan).(ChanV)
		if ch.Nil {
			panic(blockReq{"send on nil chan"})
		}
		cd := s.heap[ch.Obj].(*ChanData)
		if cd.Closed {
			panic(pathEnd{"panic: send on closed channel"})
		}
		if cd.Cap == 0 {
			// rendezvous: phase 1 deposit, phase 2 wait until taken
			if !fr.sendPending {
				if len(cd.Buf) > 0 {
					panic(blockReq{"send on busy unbuffered chan"})
				}
				s.heap[ch.Obj] = &ChanData{Buf: []Value{w.get(s, fr, x.X)}, Cap: 0}
				fr.sendPending = true
				s.progress++
				panic(blockReq{"unbuffered send waiting for receiver"})
			}
			if len(cd.Buf) > 0 {
				panic(blockReq{"unbuffered send still waiting"})
			}
			fr.sendPending = false
			fr.pc++
			return
		}
		if len(cd.Buf) >= cd.Cap {
			panic(blockReq{"send on full chan"})
		}
		s.heap[ch.Obj] = &ChanData{Buf: append(append([]Value(nil), cd.Buf...), w.get(s, fr, x.X)), Cap: cd.Cap}
		s.progress++
		fr.pc++
	case *ssa.Panic:
		msg := "explicit panic()"
		if iv, ok := w.get(s, fr, x.X).(IfaceV); ok && iv.T != nil {
			if sv, ok := iv.V.(StrV); ok && sv.IsConc() {
				msg = "panic(" + sv.S + ")"
			} else {
				msg = "panic(" + iv.T.String() + ")"
			}
		}
		panic(pathEnd{"panic: " + msg})
	case *ssa.DebugRef:
		fr.pc++
	default:
		panic(execErr{fmt.Sprintf("unsupported instruction %T: %s", in, in)})
	}
}

func (w *W) selectOp(s *State, fr *Frame, x *ssa.Select, set func(Value)) {
	var ready []int
	for i, st := range x.States {
		ch := w.get(s, fr, st.Chan).(ChanV)
		if ch.Nil {
			continue
		}
		cd := s.heap[ch.Obj].(*ChanData)
		if st.Dir == types.SendOnly {
			if cd.Closed {
				panic(pathEnd{"panic: send on closed channel (select)"})
			}
			if cd.Cap > 0 && len(cd.Buf) < cd.Cap {
				ready = append(ready, i)
			}
			// unbuffered send inside select: ready only if a receiver is parked; not modelled -> never ready
		} else if len(cd.Buf) > 0 || cd.Closed {
			// an unbuffered channel holding a deposited value = a parked sender
			ready = append(ready, i)
		}
	}
	chosen := -1
	if len(ready) == 0 {
		if x.Blocking {
			panic(blockReq{"select"})
		}
	} else if len(ready) == 1 || !s.selectAll {
		chosen = ready[0]
	} else {
		// schedule quantifier: fork over the ready cases
		k := s.ndBase + len(s.nondets)
		v := Var(fmt.Sprintf("select#%d", k), BV(64))
		pick := -1
		for j := range ready {
			if j == len(ready)-1 {
				pick = j
				break
			}
			if w.decide(s, Eq(v, ConstI(int64(j), 64))) {
				pick = j
				break
			}
		}
		s.nondets = append(s.nondets, NondetRec{Name: fmt.Sprintf("select#%d", k), Kind: "sched", T: v})
		if pick == len(ready)-1 {
			s.pc = append(s.pc, Eq(v, ConstI(int64(pick), 64)))
		}
		chosen = ready[pick]
	}
	if chosen >= 0 {
		s.progress++
	}
	res := []Value{ConstI(int64(chosen), 64), FalseT}
	for i, st := range x.States {
		if st.Dir == types.SendOnly {
			if i == chosen {
				ch := w.get(s, fr, st.Chan).(ChanV)
				cd := s.heap[ch.Obj].(*ChanData)
				s.heap[ch.Obj] = &ChanData{Buf: append(append([]Value(nil), cd.Buf...), w.get(s, fr, st.Send)), Cap: cd.Cap}
			}
			continue
		}
		elem := st.Chan.Type().Underlying().(*types.Chan).Elem()
		if i == chosen {
			ch := w.get(s, fr, st.Chan).(ChanV)
			cd := s.heap[ch.Obj].(*ChanData)
			if len(cd.Buf) > 0 {
				res = append(res, cd.Buf[0])
				res[1] = TrueT
				s.heap[ch.Obj] = &ChanData{Buf: append([]Value(nil), cd.Buf[1:]...), Closed: cd.Closed, Cap: cd.Cap}
			} else {
				res = append(res, zeroValue(elem))
			}
		} else {
			res = append(res, zeroValue(elem))
		}
	}
	set(TupleV{res})
}

// concretize forks over the feasible values 0..limit-1 of a symbolic integer.
func (w *W) concretize(s *State, v Value, limit int) int {
	if i, ok := concInt(v); ok {
		return i
	}
	t := term(v)
	for i := 0; i < limit; i++ {
		if w.decide(s, Eq(t, ConstI(int64(i), t.S.W))) {
			return i
		}
	}
	panic(pathEnd{"bound: index out of concretization range"})
}

// unsignedFix zero-extends unsigned index operands so they read as non-negative.
func unsignedFix(v Value, t types.Type) Value {
	if tm, ok := v.(*Term); ok && tm.S.K == KBV && tm.S.W < 64 {
		return Resize(tm, 64, isSigned(t))
	}
	return v
}

func iteChain(idx *Term, el []Value) Value {
	if len(el) > 8 {
		return iteRuns(idx, el)
	}
	res := el[len(el)-1]
	for i := len(el) - 2; i >= 0; i-- {
		res = iteValue(Eq(idx, ConstI(int64(i), idx.S.W)), el[i], res)
	}
	return res
}

func iteValue(c *Term, a, b Value) Value {
	if v, ok := c.BoolVal(); ok {
		if v {
			return a
		}
		return b
	}
	switch x := a.(type) {
	case *Term:
		if y, ok := b.(*Term); ok && x.S == y.S {
			return Ite(c, x, y)
		}
	case StructV:
		if y, ok := b.(StructV); ok && len(x.F) == len(y.F) {
			f := make([]Value, len(x.F))
			for i := range f {
				f[i] = iteValue(c, x.F[i], y.F[i])
			}
			return StructV{f}
		}
	case ArrayV:
		if y, ok := b.(ArrayV); ok && len(x.E) == len(y.E) {
			f := make([]Value, len(x.E))
			for i := range f {
				f[i] = iteValue(c, x.E[i], y.E[i])
			}
			return ArrayV{f}
		}
	case StrV:
		if y, ok := b.(StrV); ok && x.Len() == y.Len() {
			if x.IsConc() && y.IsConc() && x.S == y.S {
				return x
			}
			bs := make([]*Term, x.Len())
			for i := range bs {
				bs[i] = Ite(c, x.Byte(i), y.Byte(i))
			}
			if len(bs) == 0 {
				return StrV{}
			}
			return StrV{Sym: bs}
		}
	case PtrV:
		if y, ok := b.(PtrV); ok {
			if v, isC := valueEq(x, y).BoolVal(); isC && v && x.SymIdx == y.SymIdx {
				return x
			}
		}
	case SliceV:
		if y, ok := b.(SliceV); ok && x == y {
			return x
		}
	case MapV:
		if y, ok := b.(MapV); ok && x == y {
			return x
		}
	case ChanV:
		if y, ok := b.(ChanV); ok && x == y {
			return x
		}
	case IfaceV:
		if y, ok := b.(IfaceV); ok {
			if x.T == nil && y.T == nil {
				return x
			}
			if x.T != nil && y.T != nil && types.Identical(x.T, y.T) {
				return IfaceV{T: x.T, V: iteValue(c, x.V, y.V)}
			}
		}
	case FuncV:
		if y, ok := b.(FuncV); ok && x.Nil && y.Nil {
			return x
		}
	}
	panic(execErr{fmt.Sprintf("ite over non-mergeable %T/%T", a, b)})
}

func pureInstr(in ssa.Instruction) bool {
	switch x := in.(type) {
	case *ssa.BinOp:
		return x.Op != token.QUO && x.Op != token.REM
	case *ssa.UnOp:
		return x.Op != token.ARROW
	case *ssa.Field, *ssa.FieldAddr, *ssa.IndexAddr, *ssa.Index, *ssa.Convert, *ssa.ChangeType, *ssa.Extract, *ssa.DebugRef:
		return true
	}
	return false
}

// tryIfConvert handles diamonds/triangles whose arms are pure and whose join
// phis are scalar: both arms are evaluated, phis become ite.
func (w *W) tryIfConvert(s *State, fr *Frame, c *Term) bool {
	if len(s.replayQ) > 0 || s.speculative {
		return false
	}
	blk := fr.block
	tb, fb := blk.Succs[0], blk.Succs[1]
	arm := func(b *ssa.BasicBlock) (*ssa.BasicBlock, bool) { // returns join if b is a pure arm
		if len(b.Preds) != 1 || len(b.Succs) != 1 {
			return nil, false
		}
		for i, in := range b.Instrs {
			if i == len(b.Instrs)-1 {
				_, isJump := in.(*ssa.Jump)
				return b.Succs[0], isJump
			}
			if !pureInstr(in) {
				return nil, false
			}
		}
		return nil, false
	}
	var join *ssa.BasicBlock
	var predA, predB *ssa.BasicBlock // pred of join when cond true / false
	var arms []*ssa.BasicBlock
	jt, okT := arm(tb)
	jf, okF := arm(fb)
	switch {
	case okT && okF && jt == jf:
		join, predA, predB, arms = jt, tb, fb, []*ssa.BasicBlock{tb, fb}
	case okT && jt == fb:
		join, predA, predB, arms = fb, tb, blk, []*ssa.BasicBlock{tb}
	case okF && jf == tb:
		join, predA, predB, arms = tb, blk, fb, []*ssa.BasicBlock{fb}
	default:
		return false
	}
	// the join must not have the same predecessor twice
	if predA == predB {
		return false
	}
	for _, in := range join.Instrs {
		ph, ok := in.(*ssa.Phi)
		if !ok {
			break
		}
		if bt, isb := ph.Type().Underlying().(*types.Basic); !isb || bt.Info()&(types.IsInteger|types.IsBoolean|types.IsFloat) == 0 {
			return false
		}
	}
	ok := func() (ok bool) {
		saveBlock, savePC, savePrev := fr.block, fr.pc, fr.prev
		s.speculative = true
		defer func() {
			s.speculative = false
			if r := recover(); r != nil {
				fr.block, fr.pc, fr.prev = saveBlock, savePC, savePrev
				ok = false
			}
		}()
		for _, a := range arms {
			fr.block, fr.pc, fr.prev = a, 0, blk
			for fr.pc < len(a.Instrs)-1 {
				w.step(s)
			}
		}
		fr.block, fr.pc, fr.prev = saveBlock, savePC, savePrev
		return true
	}()
	if !ok {
		return false
	}
	atomic.AddInt64(&w.e.ifconv, 1)
	fr.mergeCond, fr.mergeA, fr.mergeB = c, predA, predB
	// the join may be a loop header (arg-max loops): jump() does the unwinding accounting
	fr.block = predA
	if predA == blk && predB != blk {
		fr.block = predB
	}
	w.jump(s, fr, join)
	fr.prev = predA
	if len(join.Instrs) > 0 {
		if _, isPhi := join.Instrs[0].(*ssa.Phi); !isPhi {
			fr.mergeCond = nil
		}
	}
	return true
}

func (w *W) sliceOp(s *State, fr *Frame, x *ssa.Slice) Value {
	base := w.get(s, fr, x.X)
	lo, hi, mx := 0, -1, -1
	lim := 4096
	switch b := base.(type) {
	case StrV:
		lim = b.Len()
	case SliceV:
		lim = b.Cap
	}
	if x.Low != nil {
		lo = w.intOrFork(s, w.get(s, fr, x.Low), lim, "slice low")
	}
	if x.High != nil {
		hi = w.intOrFork(s, w.get(s, fr, x.High), lim, "slice high")
	}
	if x.Max != nil {
		mx = w.intOrFork(s, w.get(s, fr, x.Max), lim, "slice max")
	}
	switch b := base.(type) {
	case StrV:
		if hi < 0 {
			hi = b.Len()
		}
		if lo < 0 || hi > b.Len() || lo > hi {
			panic(pathEnd{fmt.Sprintf("panic: slice bounds out of range [%d:%d] with length %d", lo, hi, b.Len())})
		}
		return strSlice(b, lo, hi)
	case SliceV:
		if hi < 0 {
			hi = b.Len
		}
		cp := b.Cap
		if mx >= 0 {
			if mx > b.Cap || hi > mx {
				panic(pathEnd{fmt.Sprintf("panic: slice bounds out of range [::%d] with capacity %d", mx, b.Cap)})
			}
			cp = mx
		}
		if lo < 0 || hi > cp || lo > hi {
			panic(pathEnd{fmt.Sprintf("panic: slice bounds out of range [%d:%d] with capacity %d", lo, hi, b.Cap)})
		}
		if b.Nil {
			return b
		}
		return SliceV{Obj: b.Obj, Off: b.Off + lo, Len: hi - lo, Cap: cp - lo}
	case PtrV: // pointer to array
		if b.Nil {
			panic(pathEnd{"panic: nil pointer dereference (slice of array)"})
		}
		arr := w.load(s, b).(ArrayV)
		if hi < 0 {
			hi = len(arr.E)
		}
		if lo < 0 || hi > len(arr.E) || lo > hi {
			panic(pathEnd{"panic: slice bounds out of range (array)"})
		}
		if len(b.Path) != 0 {
			// materialize a view: copy out (writes through the slice would be lost) -> unsupported
			panic(execErr{"slice of nested array"})
		}
		cp := len(arr.E)
		if mx >= 0 {
			cp = mx
		}
		return SliceV{Obj: b.Obj, Off: lo, Len: hi - lo, Cap: cp - lo}
	}
	panic(execErr{fmt.Sprintf("slice of %T", base)})
}

func strSlice(b StrV, lo, hi int) StrV {
	if lo == hi {
		return StrV{}
	}
	if b.IsConc() {
		return StrV{S: b.S[lo:hi]}
	}
	r := StrV{Sym: b.Sym[lo:hi]}
	if b.Num != nil {
		// keep shadows for part-aligned slices
		pos := 0
		var parts []NumPart
		okAlign := true
		for _, p := range b.Num.Parts {
			st, en := pos, pos+p.Width
			pos = en
			if en <= lo || st >= hi {
				continue
			}
			if st < lo || en > hi {
				if p.N == nil {
					a, z := lo-st, hi-st
					if a < 0 {
						a = 0
					}
					if z > p.Width {
						z = p.Width
					}
					parts = append(parts, NumPart{Lit: p.Lit[a:z], Width: z - a})
					continue
				}
				okAlign = false
				break
			}
			parts = append(parts, p)
		}
		if okAlign {
			r.Num = &NumShadow{Parts: parts}
		}
	}
	allc := true
	for _, t := range r.Sym {
		if !t.IsConst() {
			allc = false
			break
		}
	}
	if allc {
		bb := make([]byte, len(r.Sym))
		for i, t := range r.Sym {
			bb[i] = byte(t.C.Uint64())
		}
		return StrV{S: string(bb)}
	}
	return r
}

func (w *W) mapUpdate(s *State, m MapV, k, v Value) {
	md := s.heap[m.Obj].(*MapData)
	hit := -1
	for i := range md.Keys {
		eq := valueEq(md.Keys[i], k)
		if bv, isC := eq.BoolVal(); isC && !bv {
			continue
		}
		if w.decide(s, eq) {
			hit = i
			break
		}
	}
	nd := &MapData{Keys: append([]Value(nil), md.Keys...), Vals: append([]Value(nil), md.Vals...), Present: append([]*Term(nil), md.Present...), AnyOrder: md.AnyOrder}
	if hit >= 0 {
		nd.Vals[hit] = v
		nd.Present[hit] = TrueT
	} else {
		nd.Keys = append(nd.Keys, k)
		nd.Vals = append(nd.Vals, v)
		nd.Present = append(nd.Present, TrueT)
	}
	s.heap[m.Obj] = nd
}

func (w *W) mapLookup(s *State, m MapV, k Value, elem types.Type) (Value, *Term) {
	if m.Nil {
		return zeroValue(elem), FalseT
	}
	md := s.heap[m.Obj].(*MapData)
	for i := range md.Keys {
		eq := And(md.Present[i], valueEq(md.Keys[i], k))
		if bv, isC := eq.BoolVal(); isC && !bv {
			continue
		}
		if w.decide(s, eq) {
			return md.Vals[i], TrueT
		}
	}
	return zeroValue(elem), FalseT
}

func (w *W) mapDelete(s *State, m MapV, k Value) {
	if m.Nil {
		return
	}
	md := s.heap[m.Obj].(*MapData)
	for i := range md.Keys {
		eq := And(md.Present[i], valueEq(md.Keys[i], k))
		if bv, isC := eq.BoolVal(); isC && !bv {
			continue
		}
		if w.decide(s, eq) {
			nd := &MapData{AnyOrder: md.AnyOrder}
			for j := range md.Keys {
				if j != i {
					nd.Keys = append(nd.Keys, md.Keys[j])
					nd.Vals = append(nd.Vals, md.Vals[j])
					nd.Present = append(nd.Present, md.Present[j])
				}
			}
			s.heap[m.Obj] = nd
			return
		}
	}
}

func (w *W) makeRange(s *State, v Value) Value {
	switch x := v.(type) {
	case MapV:
		it := &IterData{}
		if !x.Nil {
			md := s.heap[x.Obj].(*MapData)
			it.Keys, it.Vals, it.Pres = md.Keys, md.Vals, md.Present
			if md.AnyOrder && len(md.Keys) > 1 {
				// Go's map order is unspecified: fork over rotations/permutations
				n := len(md.Keys)
				perms := permutations(n)
				k := s.ndBase + len(s.nondets)
				pv := Var(fmt.Sprintf("maporder#%d", k), BV(64))
				pick := len(perms) - 1
				for j := 0; j < len(perms)-1; j++ {
					if w.decide(s, Eq(pv, ConstI(int64(j), 64))) {
						pick = j
						break
					}
				}
				s.nondets = append(s.nondets, NondetRec{Name: fmt.Sprintf("maporder#%d", k), Kind: "sched", T: pv})
				if pick == len(perms)-1 {
					s.pc = append(s.pc, BvCmp("bvuge", pv, ConstI(int64(pick), 64)))
				}
				p := perms[pick]
				it = &IterData{}
				for _, idx := range p {
					it.Keys = append(it.Keys, md.Keys[idx])
					it.Vals = append(it.Vals, md.Vals[idx])
					it.Pres = append(it.Pres, md.Present[idx])
				}
			}
		}
		return IterV{Obj: w.e.alloc(s, it)}
	case StrV:
		return IterV{Obj: w.e.alloc(s, &IterData{Str: &x})}
	}
	panic(execErr{fmt.Sprintf("range over %T", v)})
}

func permutations(n int) [][]int {
	if n > 4 {
		n = 4
	}
	var res [][]int
	var rec func(cur []int, used []bool)
	rec = func(cur []int, used []bool) {
		if len(cur) == n {
			res = append(res, append([]int(nil), cur...))
			return
		}
		for i := 0; i < n; i++ {
			if !used[i] {
				used[i] = true
				rec(append(cur, i), used)
				used[i] = false
			}
		}
	}
	rec(nil, make([]bool, n))
	return res
}

func (w *W) next(s *State, it IterV, isString bool) Value {
	d := s.heap[it.Obj].(*IterData)
	if isString {
		str := *d.Str
		if !str.IsConc() {
			// byte-wise iteration is only right for ASCII; require that
			if d.Pos >= str.Len() {
				return TupleV{[]Value{FalseT, ConstI(0, 64), ConstI(0, 32)}}
			}
			b := str.Byte(d.Pos)
			if !w.decide(s, BvCmp("bvult", b, ConstU(0x80, 8))) {
				panic(execErr{"range over symbolic non-ASCII string"})
			}
			nd := *d
			nd.Pos = d.Pos + 1
			s.heap[it.Obj] = &nd
			return TupleV{[]Value{TrueT, ConstI(int64(d.Pos), 64), Resize(b, 32, false)}}
		}
		if d.Pos >= len(str.S) {
			return TupleV{[]Value{FalseT, ConstI(0, 64), ConstI(0, 32)}}
		}
		var r rune
		var size int
		for i, rr := range str.S[d.Pos:] {
			if i == 0 {
				r = rr
				size = len(string(rr))
				if rr == 0xFFFD {
					size = 1
				}
				break
			}
		}
		nd := *d
		nd.Pos = d.Pos + size
		s.heap[it.Obj] = &nd
		return TupleV{[]Value{TrueT, ConstI(int64(d.Pos), 64), ConstI(int64(r), 32)}}
	}
	pos := d.Pos
	for pos < len(d.Keys) {
		if w.decide(s, d.Pres[pos]) {
			nd := *d
			nd.Pos = pos + 1
			s.heap[it.Obj] = &nd
			return TupleV{[]Value{TrueT, d.Keys[pos], d.Vals[pos]}}
		}
		pos++
	}
	nd := *d
	nd.Pos = pos
	s.heap[it.Obj] = &nd
	return TupleV{[]Value{FalseT, nil, nil}}
}

func (w *W) builtin(s *State, b *ssa.Builtin, args []Value) Value {
	switch b.Name() {
	case "len":
		switch x := args[0].(type) {
		case StrV:
			return ConstI(int64(x.Len()), 64)
		case SliceV:
			return ConstI(int64(x.Len), 64)
		case MapV:
			if x.Nil {
				return ConstI(0, 64)
			}
			md := s.heap[x.Obj].(*MapData)
			n := 0
			for _, p := range md.Present {
				if w.decide(s, p) {
					n++
				}
			}
			return ConstI(int64(n), 64)
		case ArrayV:
			return ConstI(int64(len(x.E)), 64)
		case PtrV:
			if arr, ok := w.load(s, x).(ArrayV); ok {
				return ConstI(int64(len(arr.E)), 64)
			}
		case ChanV:
			if x.Nil {
				return ConstI(0, 64)
			}
			return ConstI(int64(len(s.heap[x.Obj].(*ChanData).Buf)), 64)
		}
	case "cap":
		switch x := args[0].(type) {
		case SliceV:
			return ConstI(int64(x.Cap), 64)
		case ChanV:
			if x.Nil {
				return ConstI(0, 64)
			}
			return ConstI(int64(s.heap[x.Obj].(*ChanData).Cap), 64)
		case ArrayV:
			return ConstI(int64(len(x.E)), 64)
		}
	case "append":
		sl := args[0].(SliceV)
		var add []Value
		switch y := args[1].(type) {
		case SliceV:
			if !y.Nil {
				arr := s.heap[y.Obj].(ArrayV)
				add = append(add, arr.E[y.Off:y.Off+y.Len]...)
			}
		case StrV:
			for i := 0; i < y.Len(); i++ {
				add = append(add, y.Byte(i))
			}
		}
		if len(add) == 0 {
			return sl
		}
		if !sl.Nil && sl.Len+len(add) <= sl.Cap {
			arr := s.heap[sl.Obj].(ArrayV)
			ne := append([]Value(nil), arr.E...)
			copy(ne[sl.Off+sl.Len:], add)
			s.heap[sl.Obj] = ArrayV{ne}
			return SliceV{Obj: sl.Obj, Off: sl.Off, Len: sl.Len + len(add), Cap: sl.Cap}
		}
		var old []Value
		if !sl.Nil {
			arr := s.heap[sl.Obj].(ArrayV)
			old = arr.E[sl.Off : sl.Off+sl.Len]
		}
		ncap := 2 * sl.Cap
		if ncap < sl.Len+len(add) {
			ncap = sl.Len + len(add)
		}
		ne := make([]Value, ncap)
		copy(ne, old)
		copy(ne[len(old):], add)
		z := zeroLike(add[0])
		for i := len(old) + len(add); i < ncap; i++ {
			ne[i] = z
		}
		id := w.e.alloc(s, ArrayV{ne})
		return SliceV{Obj: id, Len: len(old) + len(add), Cap: ncap}
	case "copy":
		dst := args[0].(SliceV)
		var src []Value
		switch y := args[1].(type) {
		case SliceV:
			if !y.Nil {
				src = s.heap[y.Obj].(ArrayV).E[y.Off : y.Off+y.Len]
			}
		case StrV:
			for i := 0; i < y.Len(); i++ {
				src = append(src, y.Byte(i))
			}
		}
		n := len(src)
		if dst.Len < n {
			n = dst.Len
		}
		if n > 0 {
			srcCopy := append([]Value(nil), src[:n]...)
			arr := s.heap[dst.Obj].(ArrayV)
			ne := append([]Value(nil), arr.E...)
			copy(ne[dst.Off:dst.Off+n], srcCopy)
			s.heap[dst.Obj] = ArrayV{ne}
		}
		return ConstI(int64(n), 64)
	case "close":
		ch := args[0].(ChanV)
		if ch.Nil {
			panic(pathEnd{"panic: close of nil channel"})
		}
		cd := s.heap[ch.Obj].(*ChanData)
		if cd.Closed {
			panic(pathEnd{"panic: close of closed channel"})
		}
		s.progress++
		s.heap[ch.Obj] = &ChanData{Buf: cd.Buf, Closed: true, Cap: cd.Cap}
		return TupleV{}
	case "clear":
		if m, ok := args[0].(MapV); ok {
			if !m.Nil {
				old := s.heap[m.Obj].(*MapData)
				s.heap[m.Obj] = &MapData{AnyOrder: old.AnyOrder}
			}
			return TupleV{}
		}
		if sl, ok := args[0].(SliceV); ok {
			if !sl.Nil && sl.Len > 0 {
				st, _ := b.Type().(*types.Signature).Params().At(0).Type().Underlying().(*types.Slice)
				if st == nil {
					panic(execErr{"clear: slice type unknown"})
				}
				arr := s.heap[sl.Obj].(ArrayV)
				ne := append([]Value(nil), arr.E...)
				for i := 0; i < sl.Len; i++ {
					ne[sl.Off+i] = zeroValue(st.Elem())
				}
				s.heap[sl.Obj] = ArrayV{ne}
			}
			return TupleV{}
		}
	case "delete":
		w.mapDelete(s, args[0].(MapV), args[1])
		return TupleV{}
	case "min", "max":
		res := args[0]
		for _, a := range args[1:] {
			x, y := term(res), term(a)
			var lt *Term
			if x.S.K == KFP {
				lt = FpCmp("fp.lt", x, y)
			} else if isSigned(b.Type().(*types.Signature).Params().At(0).Type()) {
				lt = BvCmp("bvslt", x, y)
			} else {
				lt = BvCmp("bvult", x, y)
			}
			if b.Name() == "min" {
				res = Ite(lt, x, y)
			} else {
				res = Ite(lt, y, x)
			}
		}
		return res
	case "SliceData": // unsafe.SliceData
		sl := args[0].(SliceV)
		if sl.Nil {
			return PtrV{Nil: true}
		}
		return PtrV{Obj: sl.Obj, Path: []int{sl.Off}}
	case "StringData": // unsafe.StringData
		str := args[0].(StrV)
		el := make([]Value, str.Len())
		for i := range el {
			el[i] = str.Byte(i)
		}
		return PtrV{Obj: w.e.alloc(s, ArrayV{el}), Path: []int{0}}
	case "String": // unsafe.String(ptr, len)
		n, ok := concInt(args[1])
		if !ok {
			panic(execErr{"unsafe.String with symbolic length"})
		}
		if n == 0 {
			return StrV{}
		}
		p := args[0].(PtrV)
		if p.Nil || len(p.Path) != 1 {
			panic(execErr{"unsafe.String on unsupported pointer"})
		}
		return w.bytesToStr(s, SliceV{Obj: p.Obj, Off: p.Path[0], Len: n, Cap: n})
	case "Slice": // unsafe.Slice(ptr, len)
		n, ok := concInt(args[1])
		if !ok {
			panic(execErr{"unsafe.Slice with symbolic length"})
		}
		p := args[0].(PtrV)
		if p.Nil {
			return SliceV{Nil: true}
		}
		if len(p.Path) != 1 {
			panic(execErr{"unsafe.Slice on unsupported pointer"})
		}
		return SliceV{Obj: p.Obj, Off: p.Path[0], Len: n, Cap: n}
	case "recover":
		return IfaceV{}
	case "print", "println":
		return TupleV{}
	case "ssa:wrapnilchk":
		if p, ok := args[0].(PtrV); ok && p.Nil {
			panic(pathEnd{"panic: value method called using nil pointer"})
		}
		return args[0]
	}
	panic(execErr{"builtin " + b.Name() + fmt.Sprintf(" on %T", args[0])})
}

func zeroLike(v Value) Value {
	switch x := v.(type) {
	case *Term:
		switch x.S.K {
		case KBool:
			return FalseT
		case KFP:
			return constFP(0, x.S)
		}
		return ConstU(0, x.S.W)
	case StrV:
		return StrV{}
	case PtrV:
		return PtrV{Nil: true}
	case IfaceV:
		return IfaceV{}
	case SliceV:
		return SliceV{Nil: true}
	case MapV:
		return MapV{Nil: true}
	case ChanV:
		return ChanV{Nil: true}
	case FuncV:
		return FuncV{Nil: true}
	case StructV:
		f := make([]Value, len(x.F))
		for i := range f {
			f[i] = zeroLike(x.F[i])
		}
		return StructV{f}
	case ArrayV:
		f := make([]Value, len(x.E))
		for i := range f {
			f[i] = zeroLike(x.E[i])
		}
		return ArrayV{f}
	}
	return nil
}

var skipPkgs = map[string]bool{"go.opentelemetry.io/otel/attribute": true}
