package main

import (
	"math/big"
	"sync"
	"sync/atomic"
)

// Path-condition slicing: a query "pc ∧ f" only needs the conjuncts of pc that share
// variables (or uninterpreted-function symbols) with f, transitively. Dropping the rest is
// sound for "unsat" outright, and for "sat" as long as pc itself is satisfiable (it is:
// every path condition was checked feasible when it was extended).

var (
	fvMu    sync.RWMutex
	fvCache = map[int][]int{} // term id -> sorted ids of variable terms / UF symbol ids
	ufIDs   = map[string]int{}
)

func ufSymbolID(op string) int {
	// negative ids for UF symbols so they never clash with term ids
	if id, ok := ufIDs[op]; ok {
		return id
	}
	id := -(len(ufIDs) + 1)
	ufIDs[op] = id
	return id
}

func symbolsOf(t *Term) []int {
	if !t.sym {
		return nil
	}
	fvMu.RLock()
	r, ok := fvCache[t.id]
	fvMu.RUnlock()
	if ok {
		return r
	}
	set := map[int]bool{}
	seen := map[*Term]bool{}
	var walk func(x *Term)
	walk = func(x *Term) {
		if !x.sym || seen[x] {
			return
		}
		seen[x] = true
		fvMu.RLock()
		c, ok := fvCache[x.id]
		fvMu.RUnlock()
		if ok {
			for _, v := range c {
				set[v] = true
			}
			return
		}
		if x.Op == "var" {
			set[x.id] = true
			return
		}
		if len(x.Op) > 3 && x.Op[:3] == "uf:" {
			fvMu.Lock()
			set[ufSymbolID(x.Op)] = true
			fvMu.Unlock()
		}
		for _, a := range x.Args {
			walk(a)
		}
	}
	walk(t)
	out := make([]int, 0, len(set))
	for v := range set {
		out = append(out, v)
	}
	fvMu.Lock()
	fvCache[t.id] = out
	fvMu.Unlock()
	return out
}

// sliceFor returns the conjuncts of pc connected to f through shared symbols.
func sliceFor(pc []*Term, f *Term) []*Term {
	want := map[int]bool{}
	for _, v := range symbolsOf(f) {
		want[v] = true
	}
	if len(want) == 0 {
		return nil
	}
	syms := make([][]int, len(pc))
	for i, c := range pc {
		syms[i] = symbolsOf(c)
	}
	in := make([]bool, len(pc))
	changed := true
	for changed {
		changed = false
		for i := range pc {
			if in[i] {
				continue
			}
			hit := false
			for _, v := range syms[i] {
				if want[v] {
					hit = true
					break
				}
			}
			if hit {
				in[i] = true
				changed = true
				for _, v := range syms[i] {
					want[v] = true
				}
			}
		}
	}
	var out []*Term
	for i, c := range pc {
		if in[i] {
			out = append(out, c)
		}
	}
	return out
}

// global verdict cache shared by all workers (keyed by the set of conjunct ids)
var verdictCache sync.Map

func cachedVerdict(conj []*Term) (string, bool) {
	v, ok := verdictCache.Load(conjKey(conj))
	if !ok {
		return "", false
	}
	return v.(string), true
}

// feasible decides whether s.pc ∧ c is satisfiable, cheaply when it can: remembered model,
// then a sliced query (merging the answer into the remembered model), else a full query.
func (w *W) feasible(s *State, c *Term) Result {
	npc := append(append([]*Term(nil), s.pc...), c)
	if s.model != nil && s.modelSatisfies(s.pc) {
		s.modelOK = len(s.pc)
		memo := map[*Term]*Term{}
		if r := evalTerm(c, s.model, memo); r != nil {
			if v, ok := r.BoolVal(); ok && v {
				atomic.AddInt64(&stats.ModelHits, 1)
				return Result{Status: "sat", Model: s.model, Backend: "model"}
			}
		}
		sl := append(sliceFor(s.pc, c), c)
		if st, ok := cachedVerdict(sl); ok && st == "unsat" {
			atomic.AddInt64(&stats.CacheHits, 1)
			return Result{Status: "unsat", Backend: "cache"}
		}
		r := w.solver.Check(sl, true, QFeas)
		if r.Status == "unsat" {
			verdictCache.Store(conjKey(sl), "unsat")
		}
		if r.Status == "sat" && r.Model != nil {
			merged := make(map[string]*big.Int, len(s.model)+len(r.Model))
			for k, v := range s.model {
				merged[k] = v
			}
			for k, v := range r.Model {
				merged[k] = v
			}
			r.Model = merged
		}
		return r
	}
	return w.solver.Check(npc, true, QFeas)
}
