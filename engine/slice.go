package main

import (
	"math/big"
	"sync"
	"sync/atomic"
)

// Path-condition slicing: a query "pc ∧ f" only needs the conjuncts of pc that share
// variables (or uninterpreted-function symbols) with f, transitively. Dropping the rest is
// sound for "unsat" outright, and for "sat" as long as pc itself is satisfiable (it is:
// every path condition was checked feasible when it was extended).

var (
	fvMu    sync.RWMutex
	fvCache = map[int][]int{} // term id -> sorted ids of variable terms / UF symbol ids
	ufIDs   = map[string]int{}
)

func ufSymbolID(op string) int {
	// negative ids for UF symbols so they never clash with term ids
	if id, ok := ufIDs[op]; ok {
		return id
	}
	id := -(len(ufIDs) + 1)
	ufIDs[op] = id
	return id
}

func symbolsOf(t *Term) []int {
	if !t.sym {
		return nil
	}
	fvMu.RLock()
	r, ok := fvCache[t.id]
	fvMu.RUnlock()
	if ok {
		return r
	}
	set := map[int]bool{}
	seen := map[*Term]bool{}
	var walk func(x *Term)
	walk = func(x *Term) {
		if !x.sym || seen[x] {
			return
		}
		seen[x] = true
		fvMu.RLock()
		c, ok := fvCache[x.id]
		fvMu.RUnlock()
		if ok {
			for _, v := range c {
				set[v] = true
			}
			return
		}
		if x.Op == "var" {
			set[x.id] = true
			return
		}
		if len(x.Op) > 3 && x.Op[:3] == "uf:" {
			fvMu.Lock()
			set[ufSymbolID(x.Op)] = true
			fvMu.Unlock()
		}
		for _, a := range x.Args {
			walk(a)
		}
	}
	walk(t)
	out := make([]int, 0, len(set))
	for v := range set {
		out = append(out, v)
	}
	fvMu.Lock()
	fvCache[t.id] = out
	fvMu.Unlock()
	return out
}

// sliceFor returns the conjuncts of pc connected to f through shared symbols.
func sliceFor(pc []*Term, f *Term) []*Term {
	want := map[int]bool{}
	for _, v := range symbolsOf(f) {
		want[v] = true
	}
	if len(want) == 0 {
		return nil
	}
	syms := make([][]int, len(pc))
	for i, c := range pc {
		syms[i] = symbolsOf(c)
	}
	in := make([]bool, len(pc))
	changed := true
	for changed {
		changed = false
		for i := range pc {
			if in[i] {
				continue
			}
			hit := false
			for _, v := range syms[i] {
				if want[v] {
					hit = true
					break
				}
			}
			if hit {
				in[i] = true
				changed = true
				for _, v := range syms[i] {
					want[v] = true
				}
			}
		}
	}
	var out []*Term
	for i, c := range pc {
		if in[i] {
			out = append(out, c)
		}
	}
	return out
}

// global verdict cache shared by all workers (keyed by the set of conjunct ids)
var verdictCache sync.Map

// models of satisfiable sliced queries, reusable whenever the same conjunct set is asked again
var satModelCache sync.Map

func cachedVerdict(conj []*Term) (string, bool) {
	v, ok := verdictCache.Load(conjKey(conj))
	if !ok {
		return "", false
	}
	return v.(string), true
}

// feasible decides whether s.pc ∧ c is satisfiable, cheaply when it can: remembered model,
// then a query sliced to the conjuncts connected to c and to whatever the remembered model
// does not satisfy (merging the answer into the remembered model), else a full query.
func (w *W) feasible(s *State, c *Term) Result {
	npc := append(append([]*Term(nil), s.pc...), c)
	if s.model == nil {
		return w.solver.Check(npc, true, QFeas)
	}
	memo := map[*Term]*Term{}
	holds := func(t *Term) bool {
		r := evalTerm(t, s.model, memo)
		if r == nil {
			return false
		}
		v, ok := r.BoolVal()
		return ok && v
	}
	var bad []*Term
	for i := s.modelOK; i < len(s.pc); i++ {
		if !holds(s.pc[i]) {
			bad = append(bad, s.pc[i])
		}
	}
	if len(bad) == 0 {
		s.modelOK = len(s.pc)
		if holds(c) {
			atomic.AddInt64(&stats.ModelHits, 1)
			return Result{Status: "sat", Model: s.model, Backend: "model"}
		}
	}
	focus := append(append([]*Term(nil), bad...), c)
	sl := sliceForMany(s.pc, focus)
	sl = append(sl, c)
	key := conjKey(sl)
	if st, ok := verdictCache.Load(key); ok && st.(string) == "unsat" {
		atomic.AddInt64(&stats.CacheHits, 1)
		return Result{Status: "unsat", Backend: "cache"}
	}
	var r Result
	if mv, ok := satModelCache.Load(key); ok {
		atomic.AddInt64(&stats.CacheHits, 1)
		r = Result{Status: "sat", Model: mv.(map[string]*big.Int), Backend: "cache"}
	} else {
		r = w.solver.Check(sl, true, QFeas)
		if r.Status == "unsat" {
			verdictCache.Store(key, "unsat")
		} else if r.Status == "sat" && r.Model != nil {
			satModelCache.Store(key, r.Model)
		}
	}
	if r.Status == "sat" && r.Model != nil {
		merged := make(map[string]*big.Int, len(s.model)+len(r.Model))
		for k, v := range s.model {
			merged[k] = v
		}
		for k, v := range r.Model {
			merged[k] = v
		}
		r.Model = merged
	}
	return r
}

// sliceForMany: conjuncts of pc connected (through shared symbols) to any of the focus formulas.
func sliceForMany(pc []*Term, focus []*Term) []*Term {
	want := map[int]bool{}
	for _, f := range focus {
		for _, v := range symbolsOf(f) {
			want[v] = true
		}
	}
	if len(want) == 0 {
		return nil
	}
	syms := make([][]int, len(pc))
	for i, c := range pc {
		syms[i] = symbolsOf(c)
	}
	in := make([]bool, len(pc))
	changed := true
	for changed {
		changed = false
		for i := range pc {
			if in[i] {
				continue
			}
			for _, v := range syms[i] {
				if want[v] {
					in[i] = true
					changed = true
					for _, u := range syms[i] {
						want[u] = true
					}
					break
				}
			}
		}
	}
	var out []*Term
	for i, c := range pc {
		if in[i] {
			out = append(out, c)
		}
	}
	return out
}
