package main

import (
	"go/types"
	"math"
	"sync/atomic"
)

// Exact-integer float mode (zz.ExactIntFloats): for harnesses whose float64 values are by
// construction integers of magnitude < 2^53 (cumulative byte/event counters), float64 is
// encoded as a 64-bit signed bit-vector. Integer<->float conversion is the identity, + and -
// are integer + and -, and every result is checked to stay inside (-2^53, 2^53), where
// IEEE-754 double arithmetic on integers is exact. Leaving the range ends the path as
// "bound" (inconclusive), never silently.
var exactIntFloats atomic.Bool

const exactLimit = int64(1) << 53

func exactFloatConst(f float64) Value {
	switch {
	case math.IsNaN(f):
		panic(execErr{"exact-integer float mode: NaN constant"})
	case f >= float64(exactLimit):
		return ConstI(exactLimit, 64) // only ever compared against; every value is below it
	case f <= -float64(exactLimit):
		return ConstI(-exactLimit, 64)
	case f != math.Trunc(f):
		panic(execErr{"exact-integer float mode: non-integer constant"})
	}
	return ConstI(int64(f), 64)
}

func fpSortOf2(t types.Type) (Sort, bool) {
	b, ok := t.Underlying().(*types.Basic)
	if !ok {
		return Sort{}, false
	}
	return fpSortOf(b)
}

func (w *W) exactRange(s *State, r *Term) {
	if r.IsConst() {
		v := signed(r.C, 64).Int64()
		if v >= exactLimit || v <= -exactLimit {
			panic(pathEnd{"bound: exact-integer float mode: value leaves (-2^53, 2^53)"})
		}
		return
	}
	out := Or(BvCmp("bvsge", r, ConstI(exactLimit, 64)), BvCmp("bvsle", r, ConstI(-exactLimit, 64)))
	if w.decide(s, out) {
		panic(pathEnd{"bound: exact-integer float mode: value leaves (-2^53, 2^53)"})
	}
}
