package main

import (
	"sync/atomic"

	"golang.org/x/tools/go/ssa"
)

// tryCondDAG collapses the CFG of a short-circuit condition (a && b || c ...) into one
// decision. Starting at an If on a symbolic condition it walks single-predecessor
// blocks made only of pure instructions ending in If/Jump, evaluating them
// speculatively, until it reaches blocks that are not of that shape ("exits"). If there
// are at most two distinct exits and neither starts with a φ, the whole DAG is
// replaced by one decide() on the disjunction of the path conditions into the first
// exit. Without this a loop such as `for each byte { if !(isDigit || isLower) return }`
// forks 2^n ways although it has only n+1 outcomes.
func (w *W) tryCondDAG(s *State, fr *Frame, ct *Term) bool {
	if s.speculative {
		return false
	}
	blk := fr.block
	type reach struct {
		pred *ssa.BasicBlock
		cond *Term
	}
	exits := map[*ssa.BasicBlock][]reach{}
	var order []*ssa.BasicBlock
	inner := 0
	okAll := true
	saveBlock, savePC, savePrev := fr.block, fr.pc, fr.prev

	eligible := func(b *ssa.BasicBlock) bool {
		// forward blocks only (no back edges), no φ (its value would depend on the way in)
		if b == blk || b.Index <= blk.Index {
			return false
		}
		if _, isPhi := b.Instrs[0].(*ssa.Phi); isPhi {
			return false
		}
		n := len(b.Instrs)
		for i, in := range b.Instrs {
			if i == n-1 {
				switch in.(type) {
				case *ssa.If:
					return true
				case *ssa.Jump:
					// a jump into a φ block (loop header, join) ends the DAG here: b itself is the exit
					t := b.Succs[0]
					if _, isPhi := t.Instrs[0].(*ssa.Phi); isPhi || t.Index <= b.Index {
						return false
					}
					return true
				}
				return false
			}
			if !pureInstr(in) {
				return false
			}
		}
		return false
	}
	var visit func(b, pred *ssa.BasicBlock, c *Term)
	visit = func(b, pred *ssa.BasicBlock, c *Term) {
		if !okAll {
			return
		}
		if v, isC := c.BoolVal(); isC && !v {
			return
		}
		if inner < 24 && eligible(b) {
			inner++
			fr.block, fr.pc, fr.prev = b, 0, pred
			for fr.pc < len(b.Instrs)-1 {
				w.step(s)
			}
			switch t := b.Instrs[len(b.Instrs)-1].(type) {
			case *ssa.Jump:
				visit(b.Succs[0], b, c)
			case *ssa.If:
				cv := term(w.get(s, fr, t.Cond))
				visit(b.Succs[0], b, And(c, cv))
				visit(b.Succs[1], b, And(c, Not(cv)))
			}
			return
		}
		if _, seen := exits[b]; !seen {
			order = append(order, b)
		}
		exits[b] = append(exits[b], reach{pred, c})
	}
	func() {
		s.speculative = true
		defer func() {
			s.speculative = false
			fr.block, fr.pc, fr.prev = saveBlock, savePC, savePrev
			if r := recover(); r != nil {
				okAll = false
			}
		}()
		visit(blk.Succs[0], blk, ct)
		visit(blk.Succs[1], blk, Not(ct))
	}()
	if !okAll || inner == 0 || len(order) == 0 || len(order) > 2 {
		return false
	}
	for _, e := range order {
		if len(e.Instrs) > 0 {
			if _, isPhi := e.Instrs[0].(*ssa.Phi); isPhi {
				return false
			}
		}
		if e.Index <= blk.Index {
			// an exit that is a loop header: leave it to the ordinary machinery only if it is the
			// sole way round; jump() does the unwinding accounting below
		}
	}
	target := order[0]
	if len(order) == 2 {
		c0 := FalseT
		for _, r := range exits[order[0]] {
			c0 = Or(c0, r.cond)
		}
		if !w.decide(s, c0) {
			target = order[1]
		}
	}
	atomic.AddInt64(&w.e.ifconv, 1)
	// transfer control as if coming from one of the predecessors (no φ at the target)
	fr.block = exits[target][0].pred
	w.jump(s, fr, target)
	return true
}
