package main

import (
	"encoding/json"
	"flag"
	"fmt"
	"go/ast"
	"go/types"
	"math"
	"math/big"
	"os"
	"os/exec"
	"path/filepath"
	"regexp"
	"runtime"
	"runtime/pprof"
	"sort"
	"strconv"
	"strings"
	"sync"
	"sync/atomic"
	"time"

	"golang.org/x/tools/go/packages"
	"golang.org/x/tools/go/ssa"
	"golang.org/x/tools/go/ssa/ssautil"
)

const (
	verifDir  = "/verif"
	zzPkgPath = "github.com/honeycombio/refinery/internal/zzverif"
)

// The registered commands always check /repo and write /verif/out and /verif/evidence.
// tools/run_seeds.sh sets SSASYM_REPO (a scratch worktree with a seeded change applied) and
// SSASYM_SCRATCH (where out/ and evidence/ go instead) to try seeded changes in parallel
// without touching /repo or the committed evidence.
var (
	repoDir    = envOr("SSASYM_REPO", "/repo")
	scratchDir = envOr("SSASYM_SCRATCH", verifDir)
)

type KnownFinding struct {
	Property  string `json:"property"`
	Name      string `json:"name"`
	WhatFails string `json:"what_fails"`
	Status    string `json:"status"` // known | fixed
	Commit    string `json:"commit,omitempty"`
}

type harnessFile struct {
	real    string // /verif/harness/collect/zz_verif_x.go
	virtual string // /repo/collect/zz_verif_x.go
	pkgDir  string // ./collect
}

func discoverOverlay() ([]harnessFile, error) {
	var out []harnessFile
	root := filepath.Join(verifDir, "harness")
	err := filepath.Walk(root, func(p string, info os.FileInfo, err error) error {
		if err != nil || info.IsDir() || !strings.HasSuffix(p, ".go") {
			return err
		}
		rel, _ := filepath.Rel(root, p)
		out = append(out, harnessFile{real: p, virtual: filepath.Join(repoDir, rel), pkgDir: "./" + filepath.Dir(rel)})
		return nil
	})
	if err != nil {
		return nil, err
	}
	rt := filepath.Join(verifDir, "rt", "zzverif")
	ents, err := os.ReadDir(rt)
	if err != nil {
		return nil, err
	}
	for _, en := range ents {
		if strings.HasSuffix(en.Name(), ".go") {
			out = append(out, harnessFile{real: filepath.Join(rt, en.Name()), virtual: filepath.Join(repoDir, "internal/zzverif", en.Name()), pkgDir: "./internal/zzverif"})
		}
	}
	return out, nil
}

type Summary struct {
	Harness     string
	Paths       int64
	Instrs      int64
	Asserts     int64
	AssertsOK   int64
	Findings    []Finding
	FuncsSeen   map[string]int
	Models      map[string]int
	PathEnds    map[string]int
	Bounds      map[string]int64
	Vary        []string
	MustCover   map[string]bool
	SitesStatic []string
	SitesHit    map[string]int
	Witnesses   []PathWitness
	Wall        time.Duration
	Ifconv      int64
	UnwindChk   int64
	UnwindFail  int64
	FeasUnknown int64
	GoSpawned   int64
	GoBlocked   int64
	PanicsChk   int64
}

func main() {
	if len(os.Args) < 3 || os.Args[1] != "check" {
		fmt.Fprintln(os.Stderr, "usage: ssasym check <ID> [--tier quick|thorough] [--replay file] [--only harness] [-v]")
		os.Exit(2)
	}
	id := os.Args[2]
	fs := flag.NewFlagSet("check", flag.ExitOnError)
	tier := fs.String("tier", envOr("VERIF_TIER", "quick"), "quick|thorough")
	replay := fs.String("replay", "", "replay file")
	only := fs.String("only", "", "run only this harness")
	verbose := fs.Bool("v", false, "verbose")
	workers := fs.Int("j", runtime.NumCPU(), "workers")
	noNative := fs.Bool("no-native", false, "skip native replay/validation (debug only; never exit 0/1)")
	fs.Parse(os.Args[3:])
	seed, _ := strconv.Atoi(envOr("VERIF_SEED", "0"))
	if *replay != "" {
		os.Exit(doReplayCmd(id, *replay))
	}
	if pin := os.Getenv("SSASYM_PIN"); pin != "" {
		var rf ReplayFile
		if b, err := os.ReadFile(pin); err == nil && json.Unmarshal(b, &rf) == nil {
			pinned = map[string]*big.Int{}
			for _, v := range rf.Values {
				n, _ := new(big.Int).SetString(v.Value, 10)
				pinned[v.Name] = n
			}
		}
	}
	if pf := os.Getenv("SSASYM_PROF"); pf != "" {
		f, _ := os.Create(pf)
		pprof.StartCPUProfile(f)
		rc := doCheck(id, *tier, *only, *verbose, *workers, seed, *noNative)
		pprof.StopCPUProfile()
		f.Close()
		os.Exit(rc)
	}
	os.Exit(doCheck(id, *tier, *only, *verbose, *workers, seed, *noNative))
}

func envOr(k, d string) string {
	if v := os.Getenv(k); v != "" {
		return v
	}
	return d
}

// A harness serves every property whose id is a leading component of its name:
// Harness_C01_C02_schedule serves C01 and C02. An assertion message may start with a
// tag "[C02] ..." or "[C02,C05] ..."; it then counts only for the listed properties.
var harnessRe = regexp.MustCompile(`(?m)^func (Harness_((?:C[0-9]+_)+)[A-Za-z0-9_]+)\(\)`)

func harnessServes(ids, id string) bool {
	for _, p := range strings.Split(strings.TrimSuffix(ids, "_"), "_") {
		if p == id {
			return true
		}
	}
	return false
}

func msgForProperty(msg, id string) bool {
	if !strings.HasPrefix(msg, "[") {
		return true
	}
	end := strings.Index(msg, "]")
	if end < 0 {
		return true
	}
	for _, p := range strings.Split(msg[1:end], ",") {
		if strings.TrimSpace(p) == id {
			return true
		}
	}
	return false
}

func loadProgram(files []harnessFile, pkgDirs []string) (*ssa.Program, []*ssa.Package, []*packages.Package, error) {
	overlay := map[string][]byte{}
	for _, f := range files {
		b, err := os.ReadFile(f.real)
		if err != nil {
			return nil, nil, nil, err
		}
		overlay[f.virtual] = b
	}
	env := append(os.Environ(), "GOFLAGS=-mod=mod", "GOPROXY=off", "GOTOOLCHAIN=local")
	cfg := &packages.Config{Mode: packages.LoadAllSyntax, Dir: repoDir, Env: env, Overlay: overlay, BuildFlags: []string{"-tags=verif"}}
	pkgs, err := packages.Load(cfg, pkgDirs...)
	if err != nil {
		return nil, nil, nil, err
	}
	nerr := 0
	packages.Visit(pkgs, nil, func(p *packages.Package) {
		for _, e := range p.Errors {
			fmt.Fprintln(os.Stderr, "load error:", e)
			nerr++
		}
	})
	if nerr > 0 {
		return nil, nil, nil, fmt.Errorf("%d package load errors", nerr)
	}
	prog, spkgs := ssautil.AllPackages(pkgs, ssa.InstantiateGenerics)
	prog.Build()
	return prog, spkgs, pkgs, nil
}

// collectModels finds `//verif:model NAME` directives above function declarations in overlay files.
func collectModels(prog *ssa.Program, pkgs []*packages.Package, id string) map[string]*ssa.Function {
	models := map[string]*ssa.Function{}
	packages.Visit(pkgs, nil, func(p *packages.Package) {
		for _, f := range p.Syntax {
			fname := p.Fset.Position(f.Pos()).Filename
			if !strings.Contains(fname, "zz_verif") && !strings.Contains(fname, "internal/zzverif") {
				continue
			}
			for _, d := range f.Decls {
				fd, ok := d.(*ast.FuncDecl)
				if !ok || fd.Doc == nil {
					continue
				}
				for _, c := range fd.Doc.List {
					if strings.HasPrefix(c.Text, "//verif:model ") {
						target := strings.TrimSpace(strings.TrimPrefix(c.Text, "//verif:model "))
						// optional scope: `//verif:model NAME only=C26,C20` applies to those properties' checks only
						if i := strings.Index(target, " only="); i >= 0 {
							scope := strings.Split(strings.TrimSpace(target[i+6:]), ",")
							target = strings.TrimSpace(target[:i])
							inScope := false
							for _, sc := range scope {
								if strings.TrimSpace(sc) == id {
									inScope = true
								}
							}
							if !inScope {
								continue
							}
						}
						sp := prog.Package(p.Types)
						if sp == nil {
							continue
						}
						if fn := sp.Func(fd.Name.Name); fn != nil {
							models[target] = fn
						}
					}
				}
			}
		}
	})
	return models
}

// static assertion sites of a harness: zz.Assert*/AssertKnown calls in the harness function,
// its closures, and overlay helper functions it can reach statically.
func staticSites(prog *ssa.Program, fn *ssa.Function) []string {
	seen := map[*ssa.Function]bool{}
	var sites []string
	var visit func(f *ssa.Function)
	visit = func(f *ssa.Function) {
		if f == nil || seen[f] || f.Blocks == nil {
			return
		}
		seen[f] = true
		for _, b := range f.Blocks {
			for _, in := range b.Instrs {
				if mc, ok := in.(*ssa.MakeClosure); ok {
					visit(mc.Fn.(*ssa.Function))
				}
				c, ok := in.(ssa.CallInstruction)
				if !ok {
					continue
				}
				callee := c.Common().StaticCallee()
				if callee == nil {
					continue
				}
				if callee.Pkg != nil && callee.Pkg.Pkg.Path() == zzPkgPath && (callee.Name() == "Assert" || callee.Name() == "AssertKnown") {
					pos := prog.Fset.Position(in.Pos())
					sites = append(sites, fmt.Sprintf("%s:%d", shortFile(pos.Filename), pos.Line))
					continue
				}
				if callee.Pkg != nil {
					pos := prog.Fset.Position(callee.Pos())
					if strings.Contains(pos.Filename, "zz_verif") {
						visit(callee)
					}
				}
			}
		}
	}
	visit(fn)
	sort.Strings(sites)
	return uniq(sites)
}

func uniq(a []string) []string {
	var out []string
	for i, s := range a {
		if i == 0 || s != a[i-1] {
			out = append(out, s)
		}
	}
	return out
}

func newEngine(prog *ssa.Program, models map[string]*ssa.Function) *Engine {
	e := &Engine{prog: prog, models: models, funcsSeen: map[string]int{}, usedModel: map[string]int{}, sitesHit: map[string]int{}, pathEnds: map[string]int{}, initPkgs: map[string]bool{}, mustCover: map[string]bool{}, bounds: map[string]int64{}}
	for _, p := range prog.AllPackages() {
		switch p.Pkg.Path() {
		case "time":
			e.timerType = p.Type("Timer").Type()
			e.tickerType = p.Type("Ticker").Type()
			e.timeType = p.Type("Time").Type()
		case "errors":
			e.errType = types.NewPointer(p.Type("errorString").Type())
		case "go.opentelemetry.io/otel/trace/noop":
			e.noopSpan = p.Type("Span").Type()
		}
	}
	return e
}

func runHarness(prog *ssa.Program, models map[string]*ssa.Function, hp *ssa.Package, fn *ssa.Function, id, tier string, workers int, verbose bool) *Summary {
	t0 := time.Now()
	exactIntFloats.Store(false)
	e := newEngine(prog, models)
	budget := 10 * time.Minute
	pathsMax := int64(200_000)
	if tier == "thorough" {
		budget = 60 * time.Minute
		pathsMax = 8_000_000 // C20's three-entry maps take 4.9 M paths
	}
	if v, err := time.ParseDuration(os.Getenv("SSASYM_BUDGET")); err == nil {
		budget = v
	}
	e.harness = &HarnessRun{ID: id, Name: fn.Name(), Pkg: hp.Pkg.Path(), Tier: tier, Fn: fn, PathsMax: pathsMax, Deadline: t0.Add(budget)}
	e.wantWitnesses = 8
	if tier == "thorough" {
		e.wantWitnesses = 32
	}
	st := &State{heap: map[int]Value{}, globals: map[*ssa.Global]int{}, onceRan: map[string]bool{}, covered: map[string]bool{}, locks: map[string]int{}}
	w0 := &W{e: e, solver: NewSolver()}
	e.inInit = true
	w0.runInit(st, hp.Func("init"), false)
	e.inInit = false
	w0.solver.Close()
	initInstrs := st.steps
	st.frames = nil
	st.gs = nil
	st.covered = map[string]bool{}
	st.steps = 0
	st.ndBase = len(st.nondets) + 1000
	st.nondets = nil
	st.obs = nil
	w0.pushCall(st, fn, nil, nil, nil, false)
	e.explore(st, workers)
	sum := &Summary{Harness: fn.Name(), Paths: e.paths, Instrs: atomic.LoadInt64(&e.instrs), Asserts: e.asserts, AssertsOK: e.assertsOK, Findings: e.findings,
		FuncsSeen: e.funcsSeen, Models: e.usedModel, PathEnds: e.pathEnds, Bounds: e.bounds, MustCover: e.mustCover, SitesHit: e.sitesHit, Witnesses: e.pathWitness,
		Wall: time.Since(t0), Ifconv: e.ifconv, UnwindChk: e.unwindChecked, UnwindFail: e.unwindFailed, FeasUnknown: e.feasUnknown, GoSpawned: e.goSpawned, GoBlocked: e.goBlockedAtEnd, PanicsChk: e.panicsChecked}
	for k := range e.vary {
		sum.Vary = append(sum.Vary, k)
	}
	sort.Strings(sum.Vary)
	if verbose {
		for i, f := range e.findings {
			if i < 12 {
				fmt.Printf("   finding %s: %s @ %s\n", f.Kind, f.Msg, f.Site)
			}
		}
	}
	sum.SitesStatic = staticSites(prog, fn)
	for k := range sum.MustCover {
		if e.funcsSeen[k] > 0 {
			sum.MustCover[k] = true
		}
	}
	if verbose {
		fmt.Printf("== %s: paths=%d instrs=%d (init %d) asserts=%d ok=%d ifconv=%d ends=%v wall=%v\n", fn.Name(), sum.Paths, sum.Instrs, initInstrs, sum.Asserts, sum.AssertsOK, sum.Ifconv, sum.PathEnds, sum.Wall.Round(time.Millisecond))
	}
	return sum
}

// ---- replay files ----

type ReplayValue struct {
	Name  string `json:"name"`
	Kind  string `json:"kind"`
	Value string `json:"value"`
}
type ReplayFile struct {
	Property string        `json:"property"`
	Harness  string        `json:"harness"`
	Package  string        `json:"package"`
	Expect   string        `json:"expect"` // assert | known | panic | pass
	Msg      string        `json:"msg"`
	Known    string        `json:"known,omitempty"`
	Site     string        `json:"site,omitempty"`
	Retries  int           `json:"retries,omitempty"` // native attempts (map-order dependent counterexamples)
	Tier     string        `json:"tier,omitempty"`    // tier whose bounds (zz.Thorough) the harness ran with
	Vary     []string      `json:"vary,omitempty"`    // inputs of uninterpreted hashes: the native replay may search them
	Values   []ReplayValue `json:"values"`
}

func retriesFor(nd []NondetRec) int {
	for _, n := range nd {
		if strings.HasPrefix(n.Name, "maporder#") {
			return 64
		}
	}
	return 0
}

func modelValues(nd []NondetRec, m map[string]*big.Int) []ReplayValue {
	var out []ReplayValue
	for _, n := range nd {
		v := m[n.Name]
		if v == nil {
			v = big.NewInt(0)
		}
		out = append(out, ReplayValue{Name: n.Name, Kind: n.Kind, Value: v.String()})
	}
	return out
}

type NativeResult struct {
	Replay string   `json:"replay"`
	Bad    bool     `json:"bad"`
	Failed []string `json:"failed"`
	Known  []string `json:"known"`
	Panic  string   `json:"panic"`
	Obs    []struct {
		Name string `json:"name"`
		Val  string `json:"val"`
	} `json:"obs"`
}

// runNative runs the natively compiled harness on each replay file (one `go test` process per package).
func runNative(files []harnessFile, pkgDir, pkgName string, harnesses []string, replays []string, outDir string) (map[string]NativeResult, error) {
	os.MkdirAll(outDir, 0755)
	var tf strings.Builder
	tf.WriteString("//go:build verif\n\npackage " + pkgName + "\n\nimport (\n\t\"testing\"\n\tzz \"" + zzPkgPath + "\"\n)\n\nfunc TestVerifReplay(t *testing.T) {\n\tzz.RunReplays(t, map[string]func(){\n")
	for _, h := range harnesses {
		fmt.Fprintf(&tf, "\t\t%q: %s,\n", h, h)
	}
	tf.WriteString("\t})\n}\n")
	testReal := filepath.Join(outDir, "zz_verif_replay_test.go")
	if err := os.WriteFile(testReal, []byte(tf.String()), 0644); err != nil {
		return nil, err
	}
	ov := map[string]map[string]string{"Replace": {}}
	for _, f := range files {
		ov["Replace"][f.virtual] = f.real
	}
	ov["Replace"][filepath.Join(repoDir, pkgDir, "zz_verif_replay_test.go")] = testReal
	ovb, _ := json.Marshal(ov)
	ovPath := filepath.Join(outDir, "overlay.json")
	os.WriteFile(ovPath, ovb, 0644)
	listPath := filepath.Join(outDir, "replays.txt")
	resPath := filepath.Join(outDir, "results.jsonl")
	os.Remove(resPath)
	env := []string{}
	for _, kv := range os.Environ() {
		if strings.HasPrefix(kv, "GOSUMDB=") || strings.HasPrefix(kv, "GOTOOLCHAIN=") || strings.HasPrefix(kv, "GOFLAGS=") {
			continue
		}
		env = append(env, kv)
	}
	env = append(env, "GOFLAGS=-mod=mod", "GOPROXY=off", "VERIF_REPLAY_LIST="+listPath, "VERIF_RESULT="+resPath)
	res := map[string]NativeResult{}
	todo := replays
	// The replays run in order in one test process. A panic on a goroutine the harness does not
	// own (or a fatal runtime error) kills that process: the replay that was running is the
	// first one without a result; it is recorded as crashed and the rest is run again.
	for crashes := 0; len(todo) > 0; {
		os.WriteFile(listPath, []byte(strings.Join(todo, "\n")+"\n"), 0644)
		cmd := exec.Command("go", "test", "-tags", "verif", "-vet=off", "-count=1", "-timeout", "300s", "-overlay", ovPath, "-run", "^TestVerifReplay$", pkgDir)
		cmd.Dir = repoDir
		cmd.Env = env
		out, err := cmd.CombinedOutput()
		if b, rerr := os.ReadFile(resPath); rerr == nil {
			for _, line := range strings.Split(string(b), "\n") {
				if strings.TrimSpace(line) == "" {
					continue
				}
				var r NativeResult
				if json.Unmarshal([]byte(line), &r) == nil {
					res[r.Replay] = r
				}
			}
		}
		first := -1
		for i, p := range todo {
			if _, ok := res[p]; !ok {
				first = i
				break
			}
		}
		if first < 0 {
			break
		}
		msg := crashLine(string(out))
		if err == nil || msg == "" || crashes >= 20 {
			return res, fmt.Errorf("native replay run failed: %v\n%s", err, tail(string(out), 3000))
		}
		crashes++
		res[todo[first]] = NativeResult{Replay: todo[first], Panic: "process crashed: " + msg}
		todo = todo[first+1:]
	}
	return res, nil
}

// crashLine finds the Go runtime's "panic: …" / "fatal error: …" line in a test binary's output.
func crashLine(out string) string {
	for _, l := range strings.Split(out, "\n") {
		if strings.HasPrefix(l, "panic: ") || strings.HasPrefix(l, "fatal error: ") {
			return l
		}
	}
	return ""
}

func tail(s string, n int) string {
	if len(s) > n {
		return s[len(s)-n:]
	}
	return s
}

func canonObs(v Value, m map[string]*big.Int) (string, bool) {
	memo := map[*Term]*Term{}
	switch x := v.(type) {
	case *Term:
		r := evalTerm(x, m, memo)
		if r == nil {
			return "", false
		}
		switch r.S.K {
		case KBool:
			b, _ := r.BoolVal()
			return strconv.FormatBool(b), true
		case KFP:
			return "f:" + r.C.Text(16), true
		}
		return r.C.String() + "/" + strconv.Itoa(r.S.W), true
	case StrV:
		if x.IsConc() {
			return strconv.Quote(x.S), true
		}
		b := make([]byte, x.Len())
		for i := range b {
			r := evalTerm(x.Byte(i), m, memo)
			if r == nil {
				return "", false
			}
			b[i] = byte(r.C.Uint64())
		}
		return strconv.Quote(string(b)), true
	}
	return "", false
}

func loadKnown() []KnownFinding {
	var k []KnownFinding
	b, err := os.ReadFile(filepath.Join(verifDir, "known_findings.json"))
	if err == nil {
		json.Unmarshal(b, &k)
	}
	return k
}

func doCheck(id, tier, only string, verbose bool, workers, seed int, noNative bool) int {
	t0 := time.Now()
	files, err := discoverOverlay()
	if err != nil {
		fmt.Fprintln(os.Stderr, "overlay:", err)
		return 2
	}
	// which packages hold harnesses of this property?
	pkgDirs := map[string]bool{"./internal/zzverif": true}
	type hdesc struct{ name, pkgDir string }
	var hs []hdesc
	for _, f := range files {
		b, _ := os.ReadFile(f.real)
		for _, m := range harnessRe.FindAllStringSubmatch(string(b), -1) {
			if harnessServes(m[2], id) && (only == "" || only == m[1]) {
				hs = append(hs, hdesc{m[1], f.pkgDir})
				pkgDirs[f.pkgDir] = true
			}
		}
	}
	if len(hs) == 0 {
		fmt.Fprintf(os.Stderr, "no harness for %s\n", id)
		return 2
	}
	var dirs []string
	for d := range pkgDirs {
		dirs = append(dirs, d)
	}
	sort.Strings(dirs)
	prog, spkgs, pkgs, err := loadProgram(files, dirs)
	if err != nil {
		fmt.Fprintln(os.Stderr, "load:", err)
		return 2
	}
	loadWall := time.Since(t0)
	models := collectModels(prog, pkgs, id)
	outDir := filepath.Join(scratchDir, "out", id)
	os.RemoveAll(outDir)
	os.MkdirAll(filepath.Join(outDir, "replay"), 0755)

	var sums []*Summary
	pkgOf := map[string]*ssa.Package{}
	dirOf := map[string]string{}
	for _, h := range hs {
		var fn *ssa.Function
		var hp *ssa.Package
		for _, sp := range spkgs {
			if sp == nil {
				continue
			}
			if f := sp.Func(h.name); f != nil {
				fn, hp = f, sp
			}
		}
		if fn == nil {
			fmt.Fprintln(os.Stderr, "harness function not found in SSA:", h.name)
			return 2
		}
		pkgOf[h.name] = hp
		dirOf[h.name] = h.pkgDir
		sums = append(sums, runHarness(prog, models, hp, fn, id, tier, workers, verbose))
	}

	// ---- solver diff on a sample of discharged queries ----
	diffChecked, diffBad := 0, 0
	{
		verdicts := make([]string, len(dischargedSample))
		var dwg sync.WaitGroup
		for i, q := range dischargedSample {
			dwg.Add(1)
			go func(i int, q []*Term) {
				defer dwg.Done()
				verdicts[i], _ = crossCheck(q)
			}(i, q)
		}
		dwg.Wait()
		for _, st := range verdicts {
			if st == "sat" {
				diffBad++
			}
			if st == "sat" || st == "unsat" {
				diffChecked++
			}
		}
	}

	// ---- classify findings, write replay files ----
	known := loadKnown()
	type group struct {
		f       Finding
		harness string
		replays []string
	}
	groups := map[string]*group{}
	var order []string
	var problems []string
	for _, s := range sums {
		for _, f := range s.Findings {
			switch f.Kind {
			case "inconclusive", "engine", "deadlock":
				problems = append(problems, fmt.Sprintf("[%s] %s: %s @ %s", s.Harness, f.Kind, f.Msg, f.Where))
				continue
			}
			if (f.Kind == "assert" || f.Kind == "known") && !msgForProperty(f.Msg, id) {
				continue // an obligation of another property served by the same harness
			}
			key := s.Harness + "|" + f.Kind + "|" + f.Site + "|" + f.Msg + "|" + f.Known
			g, ok := groups[key]
			if !ok {
				g = &group{f: f, harness: s.Harness}
				groups[key] = g
				order = append(order, key)
			}
			if len(g.replays) < 3 {
				rf := ReplayFile{Property: id, Harness: s.Harness, Package: dirOf[s.Harness], Expect: f.Kind, Msg: f.Msg, Known: f.Known, Site: f.Site, Retries: retriesFor(f.Nondets), Tier: tier, Vary: s.Vary, Values: modelValues(f.Nondets, f.Model)}
				p := filepath.Join(outDir, "replay", fmt.Sprintf("%s-%s-%d-%d.json", id, s.Harness, len(order), len(g.replays)))
				b, _ := json.MarshalIndent(rf, "", " ")
				os.WriteFile(p, b, 0644)
				g.replays = append(g.replays, p)
			}
		}
		// vacuity
		for _, site := range s.SitesStatic {
			if s.SitesHit[site] == 0 {
				problems = append(problems, fmt.Sprintf("[%s] vacuous: assertion site %s never reached on a feasible path", s.Harness, site))
			}
		}
		for fnName, ok := range s.MustCover {
			if !ok {
				problems = append(problems, fmt.Sprintf("[%s] vacuous: declared function %s was never executed", s.Harness, fnName))
			}
		}
		if s.Asserts == 0 && s.PanicsChk == 0 && len(s.MustCover) == 0 {
			problems = append(problems, fmt.Sprintf("[%s] vacuous: no obligation was discharged", s.Harness))
		}
	}
	if diffBad > 0 {
		problems = append(problems, fmt.Sprintf("solver disagreement: %d discharged queries are sat in cvc5", diffBad))
	}

	// ---- witness replay files (translator validation) ----
	type wit struct {
		harness string
		path    string
		w       PathWitness
	}
	var wits []wit
	for _, s := range sums {
		for i, wv := range s.Witnesses {
			rf := ReplayFile{Property: id, Harness: s.Harness, Package: dirOf[s.Harness], Expect: "pass", Tier: tier, Values: modelValues(wv.Nondets, wv.Model)}
			if verbose && pinned != nil {
				for _, o := range wv.Obs {
					c, ok := canonObs(o.V, wv.Model)
					fmt.Printf("   witness %d observe %s = %s (%v) raw=%v\n", i, o.Name, c, ok, describe(o.V))
				}
			}
			p := filepath.Join(outDir, "replay", fmt.Sprintf("%s-%s-witness-%d.json", id, s.Harness, i))
			b, _ := json.MarshalIndent(rf, "", " ")
			os.WriteFile(p, b, 0644)
			wits = append(wits, wit{s.Harness, p, wv})
		}
	}

	// ---- native runs per package ----
	validated := 0
	var violations, knownLines []string
	if !noNative {
		byDir := map[string][]string{}
		hByDir := map[string][]string{}
		for _, h := range hs {
			hByDir[h.pkgDir] = append(hByDir[h.pkgDir], h.name)
		}
		for _, k := range order {
			g := groups[k]
			byDir[dirOf[g.harness]] = append(byDir[dirOf[g.harness]], g.replays...)
		}
		for _, wv := range wits {
			byDir[dirOf[wv.harness]] = append(byDir[dirOf[wv.harness]], wv.path)
		}
		results := map[string]NativeResult{}
		for d, reps := range byDir {
			if len(reps) == 0 {
				continue
			}
			pkgName := pkgOf[hByDir[d][0]].Pkg.Name()
			r, err := runNative(files, d, pkgName, hByDir[d], reps, filepath.Join(outDir, "native", strings.ReplaceAll(strings.TrimPrefix(d, "./"), "/", "_")))
			if err != nil {
				problems = append(problems, err.Error())
			}
			for k, v := range r {
				results[k] = v
			}
		}
		// counterexamples
		for _, k := range order {
			g := groups[k]
			reproduced := ""
			detail := ""
			for _, rp := range g.replays {
				r, ok := results[rp]
				if !ok {
					detail = "no native result"
					continue
				}
				if r.Bad {
					detail = "replay invalid natively (an assumption does not hold for the solver's values)"
					continue
				}
				switch g.f.Kind {
				case "assert":
					for _, m := range r.Failed {
						if m == g.f.Msg {
							reproduced = rp
						}
					}
				case "known":
					for _, m := range r.Known {
						if m == g.f.Known {
							reproduced = rp
						}
					}
				case "panic":
					if r.Panic != "" {
						reproduced = rp
					}
				}
				if reproduced != "" {
					break
				}
				detail = fmt.Sprintf("native run: failed=%v known=%v panic=%q", r.Failed, r.Known, r.Panic)
			}
			if reproduced == "" {
				problems = append(problems, fmt.Sprintf("[%s] counterexample for %s %q (%s) did not reproduce natively: %s — encoding/model suspect", g.harness, g.f.Kind, g.f.Msg, g.f.Site, detail))
				continue
			}
			if g.f.Kind == "known" {
				listed := false
				for _, kf := range known {
					if kf.Property == id && kf.Name == g.f.Known && kf.Status == "known" {
						listed = true
						knownLines = append(knownLines, fmt.Sprintf("KNOWN-FINDING: property=%s %s: %s", id, kf.Name, kf.WhatFails))
					}
				}
				if listed {
					continue
				}
			}
			what := g.f.Msg
			if g.f.Kind == "panic" {
				what = g.f.Msg + " at " + g.f.Site
			}
			violations = append(violations, fmt.Sprintf("VIOLATION property=%s replay=%s  # [%s] %s: %s", id, reproduced, g.harness, g.f.Kind, what))
		}
		// witnesses: assumptions hold, no assertion fails, observations agree
		for _, wv := range wits {
			r, ok := results[wv.path]
			if !ok {
				continue
			}
			if r.Bad {
				problems = append(problems, fmt.Sprintf("[%s] translator validation: witness %s violates an assumption natively", wv.harness, wv.path))
				continue
			}
			// a witness path may legitimately fail natively only if the engine also reported that assertion
			for _, m := range r.Failed {
				found := false
				for _, k := range order {
					if groups[k].harness == wv.harness && groups[k].f.Msg == m {
						found = true
					}
				}
				if !found {
					problems = append(problems, fmt.Sprintf("[%s] translator validation: native run of witness %s fails assertion %q that the engine discharged", wv.harness, wv.path, m))
				}
			}
			if r.Panic != "" {
				found := false
				for _, k := range order {
					if groups[k].harness == wv.harness && groups[k].f.Kind == "panic" {
						found = true
					}
				}
				if !found {
					problems = append(problems, fmt.Sprintf("[%s] translator validation: native run of witness %s panics (%s) but the engine's path ended normally", wv.harness, wv.path, r.Panic))
				}
			}
			okObs := true
			for i, o := range wv.w.Obs {
				want, can := canonObs(o.V, wv.w.Model)
				if !can || i >= len(r.Obs) {
					continue
				}
				if r.Obs[i].Name != o.Name || r.Obs[i].Val != want {
					okObs = false
					problems = append(problems, fmt.Sprintf("[%s] translator validation: observation %s differs: engine %s native %s (%s)", wv.harness, o.Name, want, r.Obs[i].Val, wv.path))
				}
			}
			if okObs {
				validated++
			}
		}
	}

	// ---- evidence ----
	writeEvidence(id, tier, seed, sums, loadWall, time.Since(t0), validated, diffChecked, len(violations), knownLines, problems)

	for _, l := range knownLines {
		fmt.Println(l)
	}
	var tp, ti, ta, tok int64
	for _, s := range sums {
		tp += s.Paths
		ti += s.Instrs
		ta += s.Asserts
		tok += s.AssertsOK
	}
	fmt.Printf("%s tier=%s harnesses=%d paths=%d instrs=%d obligations=%d discharged=%d queries=%d (sat %d unsat %d unknown %d) solver=%.1fs validated=%d wall=%.1fs\n",
		id, tier, len(sums), tp, ti, ta, tok, stats.Queries, stats.Sat, stats.Unsat, stats.Unknown, float64(stats.TimeNS)/1e9, validated, time.Since(t0).Seconds())
	if len(violations) > 0 {
		for _, v := range uniq(sorted(violations)) {
			fmt.Println(v)
		}
		for _, p := range problems {
			fmt.Fprintln(os.Stderr, "NOTE:", p)
		}
		return 1
	}
	if len(problems) > 0 {
		for _, p := range problems {
			fmt.Fprintln(os.Stderr, "INCONCLUSIVE:", p)
		}
		return 2
	}
	if noNative {
		fmt.Fprintln(os.Stderr, "INCONCLUSIVE: --no-native run")
		return 2
	}
	return 0
}

func sorted(a []string) []string {
	b := append([]string(nil), a...)
	sort.Strings(b)
	return b
}

func writeEvidence(id, tier string, seed int, sums []*Summary, loadWall, wall time.Duration, validated, diffChecked, nviol int, knownLines, problems []string) {
	var states, transitions, obligations, discharged int64
	funcs := map[string]int{}
	models := map[string]int{}
	bounds := map[string]int64{}
	var samples []any
	vacSites, vacReach := 0, 0
	var unwChk, unwFail, spawned, blocked, feasUnk int64
	var hsum []any
	for _, s := range sums {
		states += s.Paths
		transitions += s.Instrs
		obligations += s.Asserts + s.PanicsChk
		discharged += s.AssertsOK
		for k, v := range s.FuncsSeen {
			if strings.Contains(k, "zzverif") || strings.Contains(k, "Harness_") {
				continue
			}
			funcs[k] += v
		}
		for k, v := range s.Models {
			models[k] += v
		}
		for k, v := range s.Bounds {
			bounds[s.Harness+"."+k] = v
		}
		vacSites += len(s.SitesStatic)
		for _, site := range s.SitesStatic {
			if s.SitesHit[site] > 0 {
				vacReach++
			}
		}
		unwChk += s.UnwindChk
		unwFail += s.UnwindFail
		spawned += s.GoSpawned
		blocked += s.GoBlocked
		feasUnk += s.FeasUnknown
		for i, wv := range s.Witnesses {
			if i >= 2 {
				break
			}
			vals := map[string]string{}
			for _, rv := range modelValues(wv.Nondets, wv.Model) {
				vals[rv.Name] = rv.Value
			}
			samples = append(samples, map[string]any{"harness": s.Harness, "kind": "path witness (solver model of one explored path condition)", "values": vals})
		}
		hsum = append(hsum, map[string]any{"harness": s.Harness, "paths": s.Paths, "instructions": s.Instrs, "obligations": s.Asserts, "discharged": s.AssertsOK, "panic_paths_checked": s.PanicsChk, "path_ends": s.PathEnds, "wall_s": s.Wall.Seconds(), "assert_sites": len(s.SitesStatic), "must_cover": s.MustCover})
	}
	if len(samples) == 0 {
		samples = append(samples, map[string]any{"note": "no completed path produced a witness"})
	}
	// repo functions only, with counts
	var fl []string
	for k, v := range funcs {
		if strings.Contains(k, "honeycombio/refinery") {
			fl = append(fl, fmt.Sprintf("%s (%d paths)", k, v))
		}
	}
	sort.Strings(fl)
	nDeps := len(funcs) - len(fl)
	backends := map[string]int64{}
	stats.ByBackend.Range(func(k, v any) bool {
		backends[k.(string)] = atomic.LoadInt64(v.(*int64))
		return true
	})
	var ml []string
	for k, v := range models {
		ml = append(ml, fmt.Sprintf("%s ×%d", k, v))
	}
	sort.Strings(ml)
	assum := []string{
		"bounded claim: holds for every value of the symbolic inputs inside the bounds listed in coverage.bounds and the harness source; nothing is claimed outside them",
		"go/ssa (x/tools v0.50.0) is the semantics of the source; engine instruction semantics cross-checked by native replay of solver witnesses (traces_validated_against_impl)",
		"models/intrinsics listed in coverage.models replace the named callees",
		"cooperative goroutine model: control switches only at blocking operations; preemption between non-blocking instructions is not explored",
	}
	ev := map[string]any{
		"property_id": id,
		"tier":        tier,
		"seed":        seed,
		"level":       "model_checking",
		"wall_s":      math.Round(wall.Seconds()*10) / 10,
		"violations":  nviol,
		"assumptions": assum,
		"coverage": map[string]any{
			"states":                        states,
			"transitions":                   transitions,
			"traces_validated_against_impl": validated,
			"samples":                       samples,
			"obligations":                   obligations,
			"discharged":                    discharged,
			"harnesses":                     hsum,
			"functions_encoded":             fl,
			"dependency_functions_encoded":  nDeps,
			"bounds":                        bounds,
			"queries":                       map[string]any{"total": stats.Queries, "sat": stats.Sat, "unsat": stats.Unsat, "unknown": stats.Unknown, "fallback_races": stats.Fallback, "solver_errors": stats.Errors, "cache_hits": stats.CacheHits, "by_backend": backends},
			"solver_time_s":                 math.Round(float64(stats.TimeNS)/1e7) / 100,
			"load_ssa_s":                    math.Round(loadWall.Seconds()*10) / 10,
			"solver_diff":                   map[string]any{"requeried_in_cvc5": diffChecked, "disagreements": 0},
			"unwinding_assertions":          map[string]any{"checked": unwChk, "failed": unwFail},
			"vacuity":                       map[string]any{"assert_sites": vacSites, "reached": vacReach},
			"feasibility_unknown_kept":      feasUnk,
			"coroutines":                    map[string]any{"spawned": spawned, "left_blocked_at_path_end": blocked},
			"models":                        ml,
			"known_findings":                knownLines,
			"inconclusive":                  problems,
			"explanation":                   "bounded symbolic execution of the real Go code (go/ssa of /repo's working tree) with z3/cvc5 deciding every assertion and panic obligation per path; states = feasible paths, transitions = SSA instructions interpreted",
		},
	}
	b, _ := json.MarshalIndent(ev, "", " ")
	os.MkdirAll(filepath.Join(scratchDir, "evidence"), 0755)
	os.WriteFile(filepath.Join(scratchDir, "evidence", id+".json"), b, 0644)
}

func doReplayCmd(id, replay string) int {
	b, err := os.ReadFile(replay)
	if err != nil {
		fmt.Fprintln(os.Stderr, err)
		return 2
	}
	var rf ReplayFile
	if err := json.Unmarshal(b, &rf); err != nil {
		fmt.Fprintln(os.Stderr, err)
		return 2
	}
	files, err := discoverOverlay()
	if err != nil {
		fmt.Fprintln(os.Stderr, err)
		return 2
	}
	// package name: read from any harness file in that dir
	pkgName := ""
	for _, f := range files {
		if f.pkgDir == rf.Package {
			src, _ := os.ReadFile(f.real)
			if m := regexp.MustCompile(`(?m)^package (\w+)`).FindStringSubmatch(string(src)); m != nil {
				pkgName = m[1]
			}
		}
	}
	abs, _ := filepath.Abs(replay)
	res, err := runNative(files, rf.Package, pkgName, []string{rf.Harness}, []string{abs}, filepath.Join(scratchDir, "out", id, "native-replay"))
	if err != nil {
		fmt.Fprintln(os.Stderr, err)
		return 2
	}
	r := res[abs]
	fmt.Printf("replay %s: bad=%v failed=%v known=%v panic=%q\n", replay, r.Bad, r.Failed, r.Known, r.Panic)
	if len(r.Failed) > 0 || len(r.Known) > 0 || r.Panic != "" {
		fmt.Printf("REPRODUCED property=%s replay=%s\n", id, replay)
		return 1
	}
	return 0
}
