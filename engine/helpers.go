package main

import "go/types"

// appendValues is the append builtin on an explicit element list.
func (w *W) appendValues(s *State, sl SliceV, add []Value) Value {
	if len(add) == 0 {
		return sl
	}
	if !sl.Nil && sl.Len+len(add) <= sl.Cap {
		arr := s.heap[sl.Obj].(ArrayV)
		ne := append([]Value(nil), arr.E...)
		copy(ne[sl.Off+sl.Len:], add)
		s.heap[sl.Obj] = ArrayV{ne}
		return SliceV{Obj: sl.Obj, Off: sl.Off, Len: sl.Len + len(add), Cap: sl.Cap}
	}
	var old []Value
	if !sl.Nil {
		arr := s.heap[sl.Obj].(ArrayV)
		old = arr.E[sl.Off : sl.Off+sl.Len]
	}
	ncap := 2 * sl.Cap
	if ncap < sl.Len+len(add) {
		ncap = sl.Len + len(add)
	}
	ne := make([]Value, ncap)
	copy(ne, old)
	copy(ne[len(old):], add)
	z := zeroLike(add[0])
	for i := len(old) + len(add); i < ncap; i++ {
		ne[i] = z
	}
	id := w.e.alloc(s, ArrayV{ne})
	return SliceV{Obj: id, Len: len(old) + len(add), Cap: ncap}
}

func (w *W) builtinAppendStr(s *State, sl SliceV, str StrV) Value {
	add := make([]Value, str.Len())
	for i := range add {
		add[i] = str.Byte(i)
	}
	return w.appendValues(s, sl, add)
}

func describe(v Value) string {
	switch x := v.(type) {
	case StrV:
		if x.IsConc() {
			return "str:" + x.S
		}
		out := "symstr["
		for i := 0; i < x.Len(); i++ {
			b := x.Byte(i)
			if b.IsConst() {
				out += string(rune(b.C.Uint64()))
			} else {
				out += "?"
			}
		}
		return out + "]"
	case *Term:
		if x.IsConst() {
			return "const:" + x.C.String()
		}
		return "term:" + x.Op
	}
	return "?"
}

// sameValue: structural identity of two values made of hash-consed terms (no solver).
func sameValue(a, b Value) bool {
	switch x := a.(type) {
	case *Term:
		y, ok := b.(*Term)
		return ok && x == y
	case StructV:
		y, ok := b.(StructV)
		if !ok || len(x.F) != len(y.F) {
			return false
		}
		for i := range x.F {
			if !sameValue(x.F[i], y.F[i]) {
				return false
			}
		}
		return true
	case ArrayV:
		y, ok := b.(ArrayV)
		if !ok || len(x.E) != len(y.E) {
			return false
		}
		for i := range x.E {
			if !sameValue(x.E[i], y.E[i]) {
				return false
			}
		}
		return true
	case StrV:
		y, ok := b.(StrV)
		return ok && x.IsConc() && y.IsConc() && x.S == y.S
	}
	return false
}

// iteRuns selects el[idx] for a symbolic idx known to be in range, merging runs of identical
// elements into one range test (tables such as msgp's size table have long constant runs).
func iteRuns(idx *Term, el []Value) Value {
	n := len(el)
	// runs as (hi index, value), last first
	res := el[n-1]
	i := n - 1
	for i > 0 && sameValue(el[i-1], res) {
		i--
	}
	// now el[i..n-1] == res; walk down
	for i > 0 {
		hi := i - 1
		v := el[hi]
		j := hi
		for j > 0 && sameValue(el[j-1], v) {
			j--
		}
		// elements j..hi are v
		res = iteValue(BvCmp("bvsle", idx, ConstI(int64(hi), idx.S.W)), v, res)
		i = j
	}
	return res
}

// amd64Sizes gives the sizes the gc compiler uses on amd64 (element sizes of make([]T, n)).
var amd64Sizes = types.SizesFor("gc", "amd64")
