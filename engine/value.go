package main

import (
	"fmt"
	"go/types"

	"golang.org/x/tools/go/ssa"
)

type Value interface{}

type StructV struct{ F []Value }
type ArrayV struct{ E []Value }
type PtrV struct {
	Nil  bool
	Obj  int
	Path []int
	// symbolic element index: Path[SymAt] is a placeholder, the real index is
	// SymIdx in [0,SymLen)
	SymIdx *Term
	SymAt  int
	SymLen int
}
type SliceV struct {
	Nil           bool
	Obj           int
	Off, Len, Cap int
}
type StrV struct {
	S   string
	Sym []*Term // if non-nil, symbolic bytes (len = len(Sym))
	Num *NumShadow
}

// NumShadow records that the (symbolic) string is the Width-digit decimal
// rendering of N (zero padded); strconv summaries read N instead of the bytes.
type NumShadow struct {
	Parts []NumPart
}
type NumPart struct {
	N     *Term // 64-bit value; nil for a literal part
	Width int
	Lit   string
}
type MapV struct {
	Nil bool
	Obj int
}
type MapData struct {
	Keys     []Value
	Vals     []Value
	Present  []*Term
	AnyOrder bool
}
type IfaceV struct {
	T types.Type // nil => nil interface
	V Value
}
type FuncV struct {
	Fn      *ssa.Function
	Free    []Value
	Builtin *ssa.Builtin
	Nil     bool
}
type TupleV struct{ E []Value }
type IterV struct{ Obj int } // heap object holds *IterData
type IterData struct {
	Keys []Value
	Vals []Value
	Pres []*Term
	Pos  int
	Str  *StrV
}
type OpaqueV struct{ Why string }
type ChanV struct {
	Nil bool
	Obj int
}
type ChanData struct {
	Buf    []Value
	Closed bool
	Cap    int
}

// MutexData models sync.Mutex/RWMutex state for the cooperative scheduler.
type WaitGroupData struct{ N int }

func (s StrV) Len() int {
	if s.Sym != nil {
		return len(s.Sym)
	}
	return len(s.S)
}
func (s StrV) Byte(i int) *Term {
	if s.Sym != nil {
		return s.Sym[i]
	}
	return ConstU(uint64(s.S[i]), 8)
}
func (s StrV) IsConc() bool { return s.Sym == nil }

func widthOf(b *types.Basic) (int, bool) {
	switch b.Kind() {
	case types.Int8:
		return 8, true
	case types.Uint8:
		return 8, false
	case types.Int16:
		return 16, true
	case types.Uint16:
		return 16, false
	case types.Int32, types.UntypedRune:
		return 32, true
	case types.Uint32:
		return 32, false
	case types.Int64, types.Int, types.UntypedInt:
		return 64, true
	case types.Uint64, types.Uint, types.Uintptr:
		return 64, false
	}
	return 0, false
}

func isIntBasic(t types.Type) (*types.Basic, bool) {
	b, ok := t.Underlying().(*types.Basic)
	if !ok {
		return nil, false
	}
	return b, b.Info()&types.IsInteger != 0
}

func zeroValue(t types.Type) Value {
	switch u := t.Underlying().(type) {
	case *types.Basic:
		switch {
		case u.Info()&types.IsBoolean != 0:
			return FalseT
		case u.Info()&types.IsInteger != 0:
			w, _ := widthOf(u)
			return ConstU(0, w)
		case u.Info()&types.IsString != 0:
			return StrV{}
		case u.Kind() == types.Float64 || u.Kind() == types.UntypedFloat:
			if exactIntFloats.Load() {
				return ConstI(0, 64)
			}
			return ConstF(0)
		case u.Kind() == types.Float32:
			return ConstF32(0)
		case u.Kind() == types.UnsafePointer:
			return PtrV{Nil: true}
		default:
			return OpaqueV{"zero " + u.String()}
		}
	case *types.Pointer:
		return PtrV{Nil: true}
	case *types.Slice:
		return SliceV{Nil: true}
	case *types.Map:
		return MapV{Nil: true}
	case *types.Chan:
		return ChanV{Nil: true}
	case *types.Interface:
		return IfaceV{}
	case *types.Signature:
		return FuncV{Nil: true}
	case *types.Struct:
		f := make([]Value, u.NumFields())
		for i := range f {
			f[i] = zeroValue(u.Field(i).Type())
		}
		return StructV{f}
	case *types.Array:
		e := make([]Value, u.Len())
		z := zeroValue(u.Elem())
		for i := range e {
			e[i] = z
		}
		return ArrayV{e}
	case *types.Tuple:
		e := make([]Value, u.Len())
		for i := range e {
			e[i] = zeroValue(u.At(i).Type())
		}
		return TupleV{e}
	case *types.TypeParam:
		panic("type param in zero value")
	}
	panic(fmt.Sprintf("zeroValue: unsupported type %v", t))
}

// getPath navigates into a composite value.
func getPath(v Value, path []int) Value {
	for _, i := range path {
		switch c := v.(type) {
		case StructV:
			v = c.F[i]
		case ArrayV:
			if i < 0 || i >= len(c.E) {
				panic(execErr{fmt.Sprintf("index %d out of range in array len %d", i, len(c.E))})
			}
			v = c.E[i]
		default:
			panic(execErr{fmt.Sprintf("getPath into %T", v)})
		}
	}
	return v
}

// setPath returns a copy of v with the element at path replaced.
func setPath(v Value, path []int, nv Value) Value {
	if len(path) == 0 {
		return nv
	}
	i := path[0]
	switch c := v.(type) {
	case StructV:
		f := make([]Value, len(c.F))
		copy(f, c.F)
		f[i] = setPath(c.F[i], path[1:], nv)
		return StructV{f}
	case ArrayV:
		e := make([]Value, len(c.E))
		copy(e, c.E)
		e[i] = setPath(c.E[i], path[1:], nv)
		return ArrayV{e}
	}
	panic(execErr{fmt.Sprintf("setPath into %T", v)})
}

