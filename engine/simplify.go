package main

// Bit-field normal form for byte-assembling code (binary.BigEndian, msgp
// integer decoding): zero_extend / shl-by-constant / lshr-by-constant / concat
// / extract / bvor of disjoint fields are kept as a list of pieces and rebuilt
// as concat, so that  b0<<24 | b1<<16 | b2<<8 | b3  of four extracts of one
// 32-bit term folds back to that term and no bitwise operator reaches the
// solver (bit-wise ops defeat cvc5's bv-as-int translation).

type piece struct {
	t *Term // nil = zero bits
	w int
}

func piecesOf(t *Term, depth int) []piece {
	w := t.S.W
	if depth > 12 {
		return []piece{{t, w}}
	}
	switch t.Op {
	case "const":
		if t.C.Sign() == 0 {
			return []piece{{nil, w}}
		}
	case "zero_extend":
		return append([]piece{{nil, w - t.Args[0].S.W}}, piecesOf(t.Args[0], depth+1)...)
	case "concat":
		return append(piecesOf(t.Args[0], depth+1), piecesOf(t.Args[1], depth+1)...)
	case "bvshl":
		if k, ok := shiftConst(t.Args[1], w); ok {
			p := piecesOf(t.Args[0], depth+1)
			return append(dropHigh(p, k), piece{nil, k})
		}
	case "bvlshr":
		if k, ok := shiftConst(t.Args[1], w); ok {
			p := piecesOf(t.Args[0], depth+1)
			return append([]piece{{nil, k}}, dropLow(p, k)...)
		}
	case "extract":
		hi, lo := t.P[0], t.P[1]
		src := t.Args[0]
		if src.Op == "concat" || src.Op == "zero_extend" || src.Op == "bvshl" || src.Op == "bvlshr" {
			p := piecesOf(src, depth+1)
			p = dropLow(p, lo)
			return dropHigh(p, src.S.W-1-hi)
		}
	}
	return []piece{{t, w}}
}

func shiftConst(c *Term, w int) (int, bool) {
	if !c.IsConst() || !c.C.IsInt64() {
		return 0, false
	}
	k := int(c.C.Int64())
	if k <= 0 || k >= w {
		return 0, false
	}
	return k, true
}

func pieceBits(p piece, hi, lo int) piece { // bits hi..lo of the piece (0 = LSB)
	n := hi - lo + 1
	if p.t == nil {
		return piece{nil, n}
	}
	if n == p.w {
		return p
	}
	return piece{Extract(p.t, hi, lo), n}
}

// dropHigh removes the k most significant bits.
func dropHigh(p []piece, k int) []piece {
	out := append([]piece(nil), p...)
	for k > 0 && len(out) > 0 {
		if out[0].w <= k {
			k -= out[0].w
			out = out[1:]
			continue
		}
		out[0] = pieceBits(out[0], out[0].w-1-k, 0)
		k = 0
	}
	return out
}

// dropLow removes the k least significant bits.
func dropLow(p []piece, k int) []piece {
	out := append([]piece(nil), p...)
	for k > 0 && len(out) > 0 {
		l := len(out) - 1
		if out[l].w <= k {
			k -= out[l].w
			out = out[:l]
			continue
		}
		out[l] = pieceBits(out[l], out[l].w-1, k)
		k = 0
	}
	return out
}

func piecesWidth(p []piece) int {
	n := 0
	for _, x := range p {
		n += x.w
	}
	return n
}

func interesting(p []piece) bool {
	if len(p) < 2 {
		return false
	}
	return true
}

// orPieces merges two piece lists of equal total width if, bit range by bit
// range, at most one side is non-zero.
func orPieces(a, b []piece) ([]piece, bool) {
	var out []piece
	i, j := 0, 0
	var ra, rb piece
	haveA, haveB := false, false
	for {
		if !haveA {
			if i >= len(a) {
				break
			}
			ra, haveA = a[i], true
			i++
		}
		if !haveB {
			if j >= len(b) {
				break
			}
			rb, haveB = b[j], true
			j++
		}
		n := ra.w
		if rb.w < n {
			n = rb.w
		}
		ta := pieceBits(ra, ra.w-1, ra.w-n)
		tb := pieceBits(rb, rb.w-1, rb.w-n)
		switch {
		case ta.t == nil:
			out = append(out, tb)
		case tb.t == nil:
			out = append(out, ta)
		default:
			return nil, false
		}
		if ra.w == n {
			haveA = false
		} else {
			ra = pieceBits(ra, ra.w-1-n, 0)
		}
		if rb.w == n {
			haveB = false
		} else {
			rb = pieceBits(rb, rb.w-1-n, 0)
		}
	}
	if haveA || haveB || i < len(a) || j < len(b) {
		return nil, false
	}
	return out, true
}

func buildPieces(p []piece, w int) *Term {
	// merge adjacent pieces
	var m []piece
	for _, x := range p {
		if x.w == 0 {
			continue
		}
		if len(m) > 0 {
			l := &m[len(m)-1]
			if l.t == nil && x.t == nil {
				l.w += x.w
				continue
			}
			if l.t != nil && x.t != nil {
				if l.t.IsConst() && x.t.IsConst() {
					l.t = Concat(l.t, x.t)
					l.w += x.w
					continue
				}
				// extract(u,h1,l1) ++ extract(u,h2,l2) with l1 == h2+1
				su, sh, sl := extractParts(l.t)
				tu, th, tl := extractParts(x.t)
				if su == tu && sl == th+1 {
					l.t = Extract(su, sh, tl)
					l.w += x.w
					continue
				}
			}
		}
		m = append(m, x)
	}
	if len(m) == 0 {
		return ConstU(0, w)
	}
	var res *Term
	lead := 0
	for i, x := range m {
		if i == 0 && x.t == nil {
			lead = x.w
			continue
		}
		t := x.t
		if t == nil {
			t = ConstU(0, x.w)
		}
		if res == nil {
			res = t
		} else {
			res = Concat(res, t)
		}
	}
	if res == nil {
		return ConstU(0, w)
	}
	if lead > 0 {
		return Resize(res, w, false)
	}
	return res
}

func extractParts(t *Term) (*Term, int, int) {
	if t.Op == "extract" {
		return t.Args[0], t.P[0], t.P[1]
	}
	return t, t.S.W - 1, 0
}

// simplifyOr is called by BvBin("bvor").
func simplifyOr(a, b *Term) *Term {
	if !fieldLike(a) || !fieldLike(b) {
		return nil
	}
	pa, pb := piecesOf(a, 0), piecesOf(b, 0)
	m, ok := orPieces(pa, pb)
	if !ok {
		return nil
	}
	return buildPieces(m, a.S.W)
}

func fieldLike(t *Term) bool {
	switch t.Op {
	case "zero_extend", "concat", "bvshl", "bvlshr":
		return true
	}
	return false
}

// simplifyExtract is called by Extract/Resize when the source is field-like.
func simplifyExtract(a *Term, hi, lo int) *Term {
	if !fieldLike(a) {
		return nil
	}
	p := piecesOf(a, 0)
	if len(p) < 2 {
		return nil
	}
	p = dropLow(p, lo)
	p = dropHigh(p, a.S.W-1-hi)
	return buildPieces(p, hi-lo+1)
}
