package main

import (
	"fmt"
	"math/big"
	"os"
	"runtime/debug"
	"sort"
	"strings"
	"sync"
	"sync/atomic"
	"time"

	"golang.org/x/tools/go/ssa"
)

type HarnessRun struct {
	ID       string
	Name     string
	Pkg      string
	Tier     string
	Fn       *ssa.Function
	PathsMax int64
	Deadline time.Time
}

var initPkgAllow = map[string]bool{
	"github.com/tinylib/msgp/msgp":  true,
	"errors":                        true,
	"time":                          true,
	"github.com/jonboulle/clockwork": true,
	"io":                            true,
	"strconv":                       true,
	"unicode/utf8":                  true,
	"math":                          true,
	"sort":                          true,
	"strings":                       true,
	"bytes":                         true,
	"context":                       true,
	"net/http":                      false,
}

// calls allowed to execute (by callee package) while running initialisers
var initCallAllow = map[string]bool{"errors": true, "time": true, "github.com/jonboulle/clockwork": true, "github.com/tinylib/msgp/msgp": true, "strings": true, "sort": true, "strconv": true, "math": true, "unicode/utf8": true, "bytes": true}

func isRepoPkg(p string) bool {
	return strings.HasPrefix(p, "github.com/honeycombio/refinery")
}

func where(s *State) string {
	if len(s.frames) == 0 {
		return "?"
	}
	f := s.top()
	pos := ""
	if f.pc < len(f.block.Instrs) {
		pos = f.fn.Prog.Fset.Position(f.block.Instrs[f.pc].Pos()).String()
	}
	return f.fn.String() + " " + pos
}

func stackOf(s *State, n int) string {
	var sb strings.Builder
	for i := len(s.frames) - 1; i >= 0 && i > len(s.frames)-1-n; i-- {
		f := s.frames[i]
		pos := ""
		if f.pc < len(f.block.Instrs) {
			pos = f.fn.Prog.Fset.Position(f.block.Instrs[f.pc].Pos()).String()
		}
		fmt.Fprintf(&sb, "\n      at %s %s", f.fn, pos)
	}
	return sb.String()
}

func (e *Engine) addFinding(f Finding) {
	e.mu.Lock()
	e.findings = append(e.findings, f)
	e.mu.Unlock()
}

// a sample of discharged (unsat) queries is kept for the per-run solver diff
var (
	dischargedMu     sync.Mutex
	dischargedSample [][]*Term
	dischargedSeen   int
)

func (e *Engine) noteDischarged(q []*Term) {
	dischargedMu.Lock()
	dischargedSeen++
	if len(dischargedSample) < 12 {
		dischargedSample = append(dischargedSample, q)
	} else if dischargedSeen%37 == 0 {
		dischargedSample[dischargedSeen%12] = q
	}
	dischargedMu.Unlock()
}

func (w *W) safeStep(s *State) (res interface{}) {
	defer func() {
		if r := recover(); r != nil {
			switch r.(type) {
			case forkReq, pathEnd, execErr, blockReq:
				res = r
			default:
				res = execErr{fmt.Sprintf("engine runtime error: %v\n%s", r, trimStack(debug.Stack()))}
			}
		}
	}()
	s.rpos = 0
	w.step(s)
	s.replayQ = nil
	return nil
}

func trimStack(b []byte) string {
	lines := strings.Split(string(b), "\n")
	var out []string
	for _, l := range lines {
		if strings.Contains(l, "/verif/engine/") {
			out = append(out, strings.TrimSpace(l))
			if len(out) >= 6 {
				break
			}
		}
	}
	return strings.Join(out, " | ")
}

// runPath runs one state until it ends or forks. Returns forked successor states.
func (w *W) runPath(s *State) (forks []*State) {
	e := w.e
	var lastInstrs int
	defer func() { atomic.AddInt64(&e.instrs, int64(s.steps-lastInstrs)) }()
	lastInstrs = s.steps
	for {
		if s.steps-lastInstrs > maxPathInstrs {
			e.endPath(s, "budget: path instruction budget exceeded")
			e.addFinding(Finding{Kind: "inconclusive", Msg: "path instruction budget exceeded", Where: where(s)})
			return nil
		}
		w.solver.where = ""
		res := w.safeStep(s)
		switch r := res.(type) {
		case nil:
			continue
		case forkReq:
			prefix := append([]bool(nil), s.replayQ[:s.rpos]...)
			for _, b := range []bool{false, true} {
				c := r.cond
				if !b {
					c = Not(c)
				}
				npc := append(append([]*Term(nil), s.pc...), c)
				w.solver.where = where(s)
				// model-based shortcut: if the last model of this state still satisfies the path
				// condition and this literal, the branch is feasible without asking the solver
				v := w.feasible(s, c)
				if v.Status == "unsat" {
					continue
				}
				ns := s.clone()
				ns.pc = npc
				if v.Status == "sat" && v.Model != nil {
					ns.model, ns.modelOK = v.Model, len(npc)
				} else {
					ns.model, ns.modelOK = nil, 0
				}
				if v.Status == "unknown" {
					ns.feasUnknown++
					atomic.AddInt64(&e.feasUnknown, 1)
				}
				ns.replayQ = append(append([]bool(nil), prefix...), b)
				ns.forks++
				forks = append(forks, ns)
			}
			if len(forks) == 1 {
				// only one side feasible: keep going on this worker without queueing
				s = forks[0]
				forks = nil
				continue
			}
			return forks
		case blockReq:
			if len(s.gs) == 0 {
				e.endPath(s, "deadlock")
				e.addFinding(Finding{Kind: "deadlock", Msg: "main blocked with no other goroutine: " + r.why, Where: where(s)})
				return nil
			}
			s.gs[s.cur].frames = s.frames
			if !s.gs[s.cur].done {
				s.gs[s.cur].blockedAt = s.progress
				if r.why == "yield" {
					s.gs[s.cur].blockedAt = -1
				}
			}
			next := -1
			for k := 1; k <= len(s.gs); k++ {
				i := (s.cur + k) % len(s.gs)
				g := s.gs[i]
				if g.done {
					continue
				}
				if g.blockedAt < 0 || g.blockedAt < s.progress {
					next = i
					break
				}
			}
			if next < 0 {
				if !s.gs[0].done {
					e.endPath(s, "deadlock")
					e.addFinding(Finding{Kind: "deadlock", Msg: "main goroutine blocked forever: " + r.why, Where: where(s) + stackOf(s, 6), Nondets: s.nondets})
				} else {
					nb := 0
					for _, g := range s.gs {
						if !g.done {
							nb++
						}
					}
					atomic.AddInt64(&e.goBlockedAtEnd, int64(nb))
					w.finishPath(s, "done")
				}
				return nil
			}
			s.cur = next
			s.frames = s.gs[next].frames
			s.gs[next].blockedAt = -1
			s.replayQ = nil
			continue
		case pathEnd:
			if r.status == "done" && len(s.gs) > 1 {
				// main returned: mark done and let the others quiesce? No: the harness is over.
				nb := 0
				for i, g := range s.gs {
					if i != 0 && !g.done {
						nb++
					}
				}
				atomic.AddInt64(&e.goBlockedAtEnd, int64(nb))
			}
			w.finishPath(s, r.status)
			return nil
		case execErr:
			e.endPath(s, "engine-error")
			e.addFinding(Finding{Kind: "engine", Msg: r.msg, Where: where(s) + stackOf(s, 8)})
			return nil
		}
	}
}

// modelSatisfies reports whether the state's remembered model satisfies every conjunct of pc
// (conjuncts up to modelOK are known to hold; the rest are evaluated, unknown = no).
func (s *State) modelSatisfies(pc []*Term) bool {
	if s.model == nil {
		return false
	}
	memo := map[*Term]*Term{}
	for i := s.modelOK; i < len(pc); i++ {
		r := evalTerm(pc[i], s.model, memo)
		if r == nil {
			return false
		}
		if v, ok := r.BoolVal(); !ok || !v {
			return false
		}
	}
	return true
}

var maxPathInstrs = 5_000_000

func (e *Engine) endPath(s *State, status string) {
	atomic.AddInt64(&e.paths, 1)
	key := status
	if i := strings.Index(key, ":"); i > 0 {
		key = key[:i]
	}
	e.mu.Lock()
	e.pathEnds[key]++
	for k := range s.covered {
		e.funcsSeen[k]++
	}
	e.mu.Unlock()
}

// finishPath handles a path that ended (normally, by panic, by bound).
func (w *W) finishPath(s *State, status string) {
	e := w.e
	e.endPath(s, status)
	switch {
	case status == "done":
		// keep a witness (model of the path condition) for translator validation / samples
		e.mu.Lock()
		need := len(e.pathWitness) < e.wantWitnesses
		e.mu.Unlock()
		if need {
			r := w.solver.Check(s.pc, true, QFeas)
			if r.Status == "sat" {
				e.mu.Lock()
				e.pathWitness = append(e.pathWitness, PathWitness{Model: r.Model, Nondets: append([]NondetRec(nil), s.nondets...), Obs: append([]ObsRec(nil), s.obs...)})
				e.mu.Unlock()
			}
		}
	case strings.HasPrefix(status, "panic"):
		// a panic on a path is an obligation: is the path really feasible?
		atomic.AddInt64(&e.panicsChecked, 1)
		r := w.solver.Check(s.pc, true, QOblig)
		switch r.Status {
		case "sat":
			e.addFinding(Finding{Kind: "panic", Msg: status, Where: where(s) + stackOf(s, 8), Model: r.Model, Nondets: append([]NondetRec(nil), s.nondets...), Site: panicSite(s)})
		case "unsat":
		default:
			e.addFinding(Finding{Kind: "inconclusive", Msg: "solver unknown on panic path: " + status, Where: where(s)})
		}
	case strings.HasPrefix(status, "unwind"):
		atomic.AddInt64(&e.unwindFailed, 1)
		e.addFinding(Finding{Kind: "inconclusive", Msg: "unwinding assertion failed: " + status, Where: where(s)})
	case strings.HasPrefix(status, "bound"):
		e.addFinding(Finding{Kind: "inconclusive", Msg: status, Where: where(s) + stackOf(s, 6)})
	}
}

func panicSite(s *State) string {
	if len(s.frames) == 0 {
		return "?"
	}
	f := s.top()
	if f.pc < len(f.block.Instrs) {
		p := f.fn.Prog.Fset.Position(f.block.Instrs[f.pc].Pos())
		return fmt.Sprintf("%s:%d", shortFile(p.Filename), p.Line)
	}
	return f.fn.String()
}

type PathWitness struct {
	Model   map[string]*big.Int
	Nondets []NondetRec
	Obs     []ObsRec
}

// explore runs the harness from the given initial state with nworkers workers.
func (e *Engine) explore(init *State, nworkers int) {
	var mu sync.Mutex
	cond := sync.NewCond(&mu)
	stack := []*State{init}
	active := 0
	stop := false
	var wg sync.WaitGroup
	for i := 0; i < nworkers; i++ {
		wg.Add(1)
		go func() {
			defer wg.Done()
			w := &W{e: e, solver: NewSolver()}
			defer w.solver.Close()
			for {
				mu.Lock()
				for len(stack) == 0 && active > 0 && !stop {
					cond.Wait()
				}
				if stop || (len(stack) == 0 && active == 0) {
					mu.Unlock()
					cond.Broadcast()
					return
				}
				s := stack[len(stack)-1]
				stack = stack[:len(stack)-1]
				active++
				mu.Unlock()
				forks := w.runPath(s)
				mu.Lock()
				active--
				stack = append(stack, forks...)
				if atomic.LoadInt64(&e.paths) > e.harness.PathsMax {
					if !stop {
						e.addFinding(Finding{Kind: "inconclusive", Msg: fmt.Sprintf("path budget %d exceeded", e.harness.PathsMax)})
					}
					stop = true
				}
				if time.Now().After(e.harness.Deadline) {
					if !stop {
						e.addFinding(Finding{Kind: "inconclusive", Msg: "wall-clock budget exceeded"})
					}
					stop = true
				}
				mu.Unlock()
				cond.Broadcast()
			}
		}()
	}
	wg.Wait()
}

// runInit executes package initialisers of repo packages (concretely), on one worker.
func (w *W) runInit(s *State, initFn *ssa.Function, lazy bool) {
	if s.initDone == nil {
		s.initDone = map[string]bool{}
	}
	if initFn.Pkg != nil {
		s.initDone[initFn.Pkg.Pkg.Path()] = true
	}
	base := len(s.frames)
	w.pushCall(s, initFn, nil, nil, nil, false)
	if lazy {
		s.top().isDefer = true // on return the interrupted instruction of the caller is re-executed
	} else {
		s.top().isInit = true
	}
	saveQ, saveR := s.replayQ, s.rpos
	defer func() { s.replayQ, s.rpos = saveQ, saveR }()
	poison := func(fr *Frame, in ssa.Instruction) {
		if v, ok := in.(ssa.Value); ok {
			fr.locals[v] = OpaqueV{"poisoned by skipped init instruction"}
		}
		fr.pc++
	}
	verbose := os.Getenv("SSASYM_V") != ""
	for len(s.frames) > base {
		fr := s.top()
		if fr.pc < len(fr.block.Instrs) {
			if c, ok := fr.block.Instrs[fr.pc].(*ssa.Call); ok {
				if callee := c.Call.StaticCallee(); callee != nil && callee.Pkg != nil {
					pp := callee.Pkg.Pkg.Path()
					if callee.Name() == "init" && callee.Synthetic != "" {
						// nested initialisers: eagerly for repo packages and the allow-list when starting
						// up; a lazily initialised package leaves its imports to be initialised on demand
						if lazy || !(isRepoPkg(pp) || initPkgAllow[pp]) || s.initDone[pp] {
							fr.pc++
							continue
						}
						s.initDone[pp] = true
					} else if !isRepoPkg(pp) && !initCallAllow[pp] && fr.fn.Synthetic != "" && fr.fn.Name() == "init" {
						// foreign call made directly by a package initialiser: skip, poison result
						if _, isIntr := intrinsics[callee.String()]; !isIntr {
							if verbose {
								fmt.Println("init: skipping call", callee, "in", fr.fn)
							}
							poison(fr, c)
							continue
						}
					}
				}
			}
		}
		res := w.safeStep(s)
		switch r := res.(type) {
		case nil:
		case pathEnd:
			if r.status == "done" {
				return
			}
			if verbose {
				fmt.Println("init: trap", r.status, "at", where(s))
			}
			w.unwindInit(s, poison, base)
			if len(s.frames) <= base {
				return
			}
		case execErr:
			if verbose {
				fmt.Println("init: skipping", where(s), ":", firstLine(r.msg))
			}
			w.unwindInit(s, poison, base)
			if len(s.frames) <= base {
				return
			}
		case forkReq:
			w.unwindInit(s, poison, base)
			if len(s.frames) <= base {
				return
			}
		case blockReq:
			w.unwindInit(s, poison, base)
			if len(s.frames) <= base {
				return
			}
		}
	}
}

// unwindInit pops to the nearest package initialiser frame and skips its current instruction.
func (w *W) unwindInit(s *State, poison func(*Frame, ssa.Instruction), base int) {
	for len(s.frames) > base && !(s.top().fn.Name() == "init" && s.top().fn.Synthetic != "") {
		s.frames = s.frames[:len(s.frames)-1]
	}
	if len(s.frames) <= base {
		return
	}
	fr := s.top()
	poison(fr, fr.block.Instrs[fr.pc])
}

func sortedKeys[T any](m map[string]T) []string {
	ks := make([]string, 0, len(m))
	for k := range m {
		ks = append(ks, k)
	}
	sort.Strings(ks)
	return ks
}
