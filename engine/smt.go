package main

// Solver driver: one long-lived `z3 -in` per worker, with a concurrent race of
// fallback solvers for obligation queries that z3 does not decide quickly.

import (
	"bufio"
	"context"
	"fmt"
	"io"
	"math/big"
	"os"
	"os/exec"
	"sort"
	"strconv"
	"strings"
	"sync"
	"sync/atomic"
	"time"
)

type SolverStats struct {
	Queries, Sat, Unsat, Unknown, Fallback, Errors, CacheHits, ModelHits int64
	TimeNS                                                   int64
	ByBackend                                                sync.Map // name -> *int64
}

var stats SolverStats

func bumpBackend(name string) {
	v, _ := stats.ByBackend.LoadOrStore(name, new(int64))
	atomic.AddInt64(v.(*int64), 1)
}

type Solver struct {
	cmd   *exec.Cmd
	in    io.WriteCloser
	out   *bufio.Reader
	cache map[string]string
	where string
	dead  bool
}

type QueryKind int

const (
	QFeas QueryKind = iota // branch feasibility: short cap, unknown keeps branch
	QOblig                 // assertion / panic obligation: full budget + race
)

var (
	feasTimeoutMS  = 2000
	obligTimeoutMS = 3000
	raceTimeoutMS  = 90000
	dumpDir        = os.Getenv("SSASYM_DUMP")
	dumpThreshold  = func() time.Duration {
		if v, err := time.ParseDuration(os.Getenv("SSASYM_DUMP_OVER")); err == nil {
			return v
		}
		return 2 * time.Second
	}()
)

func NewSolver() *Solver {
	s := &Solver{cache: map[string]string{}}
	s.start()
	return s
}

func (s *Solver) start() {
	s.cmd = exec.Command("z3", "-in")
	s.in, _ = s.cmd.StdinPipe()
	o, _ := s.cmd.StdoutPipe()
	s.cmd.Stderr = nil
	s.out = bufio.NewReader(o)
	if err := s.cmd.Start(); err != nil {
		panic(err)
	}
	s.dead = false
}

func (s *Solver) Close() {
	if s.in != nil {
		s.in.Close()
	}
	if s.cmd != nil && s.cmd.Process != nil {
		s.cmd.Process.Kill()
		s.cmd.Wait()
	}
}

func (s *Solver) restart() {
	s.Close()
	s.start()
}

func (s *Solver) readSexp() string {
	var sb strings.Builder
	depth := 0
	started := false
	inQuote := false
	for {
		r, _, err := s.out.ReadRune()
		if err != nil {
			s.dead = true
			return sb.String()
		}
		if !started {
			if r == ' ' || r == '\n' || r == '\t' || r == '\r' {
				continue
			}
			started = true
		}
		sb.WriteRune(r)
		if r == '|' {
			inQuote = !inQuote
			continue
		}
		if r == '"' && depth > 0 {
			// string literal inside error message
			for {
				r2, _, err := s.out.ReadRune()
				if err != nil {
					return sb.String()
				}
				sb.WriteRune(r2)
				if r2 == '"' {
					break
				}
			}
			continue
		}
		if inQuote {
			continue
		}
		if r == '(' {
			depth++
		} else if r == ')' {
			depth--
			if depth == 0 {
				return sb.String()
			}
		} else if depth == 0 && r == '\n' {
			return strings.TrimSpace(sb.String())
		}
	}
}

type Result struct {
	Status  string // sat | unsat | unknown
	Model   map[string]*big.Int
	Backend string
	Detail  string
}

func conjKey(conj []*Term) string {
	ids := make([]int, 0, len(conj))
	for _, c := range conj {
		ids = append(ids, c.id)
	}
	sort.Ints(ids)
	var sb strings.Builder
	last := -1
	for _, i := range ids {
		if i == last {
			continue
		}
		last = i
		sb.WriteString(strconv.Itoa(i))
		sb.WriteByte(',')
	}
	return sb.String()
}

// Check asks whether the conjunction is satisfiable.
func (s *Solver) Check(conj []*Term, wantModel bool, kind QueryKind) Result {
	var live []*Term
	for _, c := range conj {
		if v, ok := c.BoolVal(); ok {
			if !v {
				return Result{Status: "unsat", Backend: "fold"}
			}
			continue
		}
		live = append(live, c)
	}
	if len(live) == 0 {
		return Result{Status: "sat", Model: map[string]*big.Int{}, Backend: "fold"}
	}
	key := ""
	if !wantModel {
		key = conjKey(live)
		if r, ok := s.cache[key]; ok && (r != "unknown" || kind == QFeas) {
			atomic.AddInt64(&stats.CacheHits, 1)
			return Result{Status: r, Backend: "cache"}
		}
	}
	t0 := time.Now()
	atomic.AddInt64(&stats.Queries, 1)
	e := newEmitter()
	asserts := make([]string, 0, len(live))
	for _, c := range live {
		asserts = append(asserts, e.ref(c))
	}
	var body strings.Builder
	body.WriteString(e.sb.String())
	for _, a := range asserts {
		body.WriteString("(assert ")
		body.WriteString(a)
		body.WriteString(")\n")
	}
	var names []string
	for _, v := range e.vars {
		names = append(names, smtName(v.Name))
	}
	tmo := feasTimeoutMS
	if kind == QOblig {
		tmo = obligTimeoutMS
	}
	res := s.askZ3(body.String(), names, e.vars, wantModel, tmo)
	if res.Status == "unknown" && kind == QOblig {
		atomic.AddInt64(&stats.Fallback, 1)
		r2 := raceFallback(body.String(), names, e.vars, wantModel)
		if r2.Status != "unknown" {
			res = r2
		}
	} else if res.Status == "unknown" && kind == QFeas {
		r2 := feasFallback(body.String(), names, e.vars, wantModel)
		if r2.Status != "unknown" {
			res = r2
		}
	}
	d := time.Since(t0)
	atomic.AddInt64(&stats.TimeNS, int64(d))
	switch res.Status {
	case "sat":
		atomic.AddInt64(&stats.Sat, 1)
	case "unsat":
		atomic.AddInt64(&stats.Unsat, 1)
	default:
		atomic.AddInt64(&stats.Unknown, 1)
	}
	bumpBackend(res.Backend)
	if dumpDir != "" && (d > dumpThreshold || res.Status == "unknown") {
		os.WriteFile(fmt.Sprintf("%s/q-%d-%s.smt2", dumpDir, time.Now().UnixNano(), res.Status), []byte(body.String()+"(check-sat)\n; "+s.where+"\n"), 0644)
	}
	if key != "" {
		s.cache[key] = res.Status
	}
	return res
}

func (s *Solver) askZ3(body string, names []string, vars []*Term, wantModel bool, timeoutMS int) Result {
	if s.dead {
		s.restart()
	}
	var script strings.Builder
	fmt.Fprintf(&script, "(reset)\n(set-option :timeout %d)\n", timeoutMS)
	script.WriteString(body)
	script.WriteString("(check-sat)\n")
	if _, err := io.WriteString(s.in, script.String()); err != nil {
		s.dead = true
		return Result{Status: "unknown", Backend: "z3", Detail: "write failed"}
	}
	res := s.readSexp()
	out := Result{Backend: "z3"}
	if strings.HasPrefix(res, "(error") {
		// an error line means the script was not understood: inconclusive
		for strings.HasPrefix(res, "(error") && !s.dead {
			atomic.AddInt64(&stats.Errors, 1)
			out.Detail = res
			res = s.readSexp()
		}
		out.Status = "unknown"
		return out
	}
	switch res {
	case "sat":
		out.Status = "sat"
		if wantModel && len(names) > 0 {
			fmt.Fprintf(s.in, "(get-value (%s))\n", strings.Join(names, " "))
			mv := s.readSexp()
			if strings.HasPrefix(mv, "(error") {
				out.Status = "unknown"
				out.Detail = mv
			} else {
				out.Model = parseValues(mv, vars)
			}
		} else if wantModel {
			out.Model = map[string]*big.Int{}
		}
	case "unsat":
		out.Status = "unsat"
	default:
		out.Status = "unknown"
		out.Detail = res
	}
	if s.dead {
		out.Status = "unknown"
	}
	return out
}

type backend struct {
	name string
	argv []string
	pre  string
}

var fallbackBackends = []backend{
	{"z3-new", []string{"z3-new", "-in"}, ""},
	{"cvc5", []string{"cvc5", "--lang=smt2", "--produce-models"}, "(set-logic ALL)\n"},
	{"cvc5-bvint", []string{"cvc5", "--lang=smt2", "--produce-models", "--solve-bv-as-int=sum"}, "(set-logic ALL)\n"},
	{"z3-long", []string{"z3", "-in"}, ""},
}

func raceFallback(body string, names []string, vars []*Term, wantModel bool) Result {
	// every race starts up to four solver processes: with all workers racing at once the
	// machine is oversubscribed and queries that need 15 s alone run into the 90 s cap
	raceSlots <- struct{}{}
	defer func() { <-raceSlots }()
	return raceBackends(fallbackBackends, raceTimeoutMS, body, names, vars, wantModel)
}

var raceSlots = make(chan struct{}, 4)

// feasFallback: a branch-feasibility query the primary z3 gave up on is put to the two other
// solvers for a few seconds; they often refute in milliseconds what z3 4.8 times out on (FP mixed
// with uninterpreted functions), which saves exploring an infeasible branch.
func feasFallback(body string, names []string, vars []*Term, wantModel bool) Result {
	return raceBackends(fallbackBackends[:2], feasFallbackMS, body, names, vars, wantModel)
}

var feasFallbackMS = 3000

func raceBackends(backends []backend, timeoutMS int, body string, names []string, vars []*Term, wantModel bool) Result {
	ctx, cancel := context.WithTimeout(context.Background(), time.Duration(timeoutMS)*time.Millisecond)
	defer cancel()
	ch := make(chan Result, len(backends))
	hasFP := strings.Contains(body, "FloatingPoint")
	n := 0
	for _, b := range backends {
		if b.name == "cvc5-bvint" && hasFP {
			continue
		}
		n++
		go func(b backend) {
			script := b.pre + body + "(check-sat)\n"
			if wantModel && len(names) > 0 {
				script += "(get-value (" + strings.Join(names, " ") + "))\n"
			}
			cmd := exec.CommandContext(ctx, b.argv[0], b.argv[1:]...)
			cmd.Stdin = strings.NewReader(script)
			outb, _ := cmd.Output()
			o := strings.TrimSpace(string(outb))
			r := Result{Status: "unknown", Backend: b.name, Detail: o}
			if strings.HasPrefix(o, "unsat") {
				// (get-value) after unsat legitimately answers with an error; the verdict stands
				r.Status = "unsat"
			} else if strings.Contains(o, "(error") {
				ch <- r
				return
			} else if strings.HasPrefix(o, "sat") {
				r.Status = "sat"
				if wantModel {
					rest := strings.TrimSpace(strings.TrimPrefix(o, "sat"))
					r.Model = parseValues(rest, vars)
				}
			}
			ch <- r
		}(b)
	}
	var last Result
	last.Status = "unknown"
	last.Backend = "race"
	for i := 0; i < n; i++ {
		r := <-ch
		if r.Status != "unknown" {
			return r
		}
		if r.Detail != "" {
			last.Detail += r.Backend + ":" + firstLine(r.Detail) + ";"
		}
	}
	return last
}

func firstLine(s string) string {
	if i := strings.IndexByte(s, '\n'); i >= 0 {
		return s[:i]
	}
	return s
}

// ---- s-expression parsing of (get-value) output ----

type sx struct {
	atom string
	list []*sx
}

func parseSx(s string, i *int) *sx {
	for *i < len(s) && (s[*i] == ' ' || s[*i] == '\n' || s[*i] == '\t' || s[*i] == '\r') {
		*i++
	}
	if *i >= len(s) {
		return nil
	}
	if s[*i] == '(' {
		*i++
		n := &sx{}
		for {
			for *i < len(s) && (s[*i] == ' ' || s[*i] == '\n' || s[*i] == '\t' || s[*i] == '\r') {
				*i++
			}
			if *i >= len(s) {
				return n
			}
			if s[*i] == ')' {
				*i++
				return n
			}
			c := parseSx(s, i)
			if c == nil {
				return n
			}
			n.list = append(n.list, c)
		}
	}
	start := *i
	if s[*i] == '|' {
		*i++
		for *i < len(s) && s[*i] != '|' {
			*i++
		}
		*i++
		return &sx{atom: s[start:*i]}
	}
	for *i < len(s) && s[*i] != ' ' && s[*i] != '\n' && s[*i] != ')' && s[*i] != '(' && s[*i] != '\t' && s[*i] != '\r' {
		*i++
	}
	return &sx{atom: s[start:*i]}
}

func bitsOf(n *sx) (*big.Int, int, bool) {
	a := n.atom
	switch {
	case strings.HasPrefix(a, "#x"):
		v, ok := new(big.Int).SetString(a[2:], 16)
		return v, 4 * (len(a) - 2), ok
	case strings.HasPrefix(a, "#b"):
		v, ok := new(big.Int).SetString(a[2:], 2)
		return v, len(a) - 2, ok
	}
	if n.atom == "" && len(n.list) == 3 && n.list[0].atom == "_" && strings.HasPrefix(n.list[1].atom, "bv") {
		v, ok := new(big.Int).SetString(n.list[1].atom[2:], 10)
		w, _ := strconv.Atoi(n.list[2].atom)
		return v, w, ok
	}
	return nil, 0, false
}

func parseValues(s string, vars []*Term) map[string]*big.Int {
	res := map[string]*big.Int{}
	byName := map[string]*Term{}
	for _, v := range vars {
		byName[smtName(v.Name)] = v
	}
	i := 0
	root := parseSx(s, &i)
	if root == nil {
		return res
	}
	for _, pair := range root.list {
		if len(pair.list) != 2 {
			continue
		}
		v, ok := byName[pair.list[0].atom]
		if !ok {
			continue
		}
		val := pair.list[1]
		switch v.S.K {
		case KBool:
			if val.atom == "true" {
				res[v.Name] = big.NewInt(1)
			} else {
				res[v.Name] = big.NewInt(0)
			}
		case KBV:
			if b, _, ok := bitsOf(val); ok {
				res[v.Name] = b
			}
		case KFP:
			eb, sb := 11, 52
			if v.S.W == 32 {
				eb, sb = 8, 23
			}
			if len(val.list) == 4 && val.list[0].atom == "fp" {
				sg, _, _ := bitsOf(val.list[1])
				ex, _, _ := bitsOf(val.list[2])
				mn, _, _ := bitsOf(val.list[3])
				if sg != nil && ex != nil && mn != nil {
					r := new(big.Int).Lsh(sg, uint(eb+sb))
					r.Or(r, new(big.Int).Lsh(ex, uint(sb)))
					r.Or(r, mn)
					res[v.Name] = r
				}
			} else if len(val.list) == 4 && val.list[0].atom == "_" {
				allOnes := new(big.Int).Sub(new(big.Int).Lsh(big.NewInt(1), uint(eb)), big.NewInt(1))
				switch val.list[1].atom {
				case "+zero":
					res[v.Name] = big.NewInt(0)
				case "-zero":
					res[v.Name] = new(big.Int).Lsh(big.NewInt(1), uint(eb+sb))
				case "+oo":
					res[v.Name] = new(big.Int).Lsh(allOnes, uint(sb))
				case "-oo":
					r := new(big.Int).Lsh(allOnes, uint(sb))
					res[v.Name] = r.Or(r, new(big.Int).Lsh(big.NewInt(1), uint(eb+sb)))
				case "NaN":
					r := new(big.Int).Lsh(allOnes, uint(sb))
					res[v.Name] = r.Or(r, new(big.Int).Lsh(big.NewInt(1), uint(sb-1)))
				}
			}
		}
	}
	return res
}

// crossCheck re-asks a script to a second solver; used for the per-run solver diff.
func crossCheck(conj []*Term) (string, string) {
	e := newEmitter()
	var body strings.Builder
	var asserts []string
	for _, c := range conj {
		if v, ok := c.BoolVal(); ok {
			if !v {
				return "unsat", ""
			}
			continue
		}
		asserts = append(asserts, e.ref(c))
	}
	body.WriteString(e.sb.String())
	for _, a := range asserts {
		body.WriteString("(assert " + a + ")\n")
	}
	ctx, cancel := context.WithTimeout(context.Background(), 20*time.Second)
	defer cancel()
	cmd := exec.CommandContext(ctx, "cvc5", "--lang=smt2")
	cmd.Stdin = strings.NewReader("(set-logic ALL)\n" + body.String() + "(check-sat)\n")
	outb, _ := cmd.Output()
	o := strings.TrimSpace(string(outb))
	if strings.Contains(o, "(error") {
		return "error", o
	}
	if strings.HasPrefix(o, "unsat") {
		return "unsat", ""
	}
	if strings.HasPrefix(o, "sat") {
		return "sat", ""
	}
	return "unknown", o
}
